"""C15 - tracked particles follow the flow of the distribution and never leave the grid."""
import math, os, subprocess, tempfile
from fractions import Fraction
from vp_common import *
import vp_coq, vp_build, track_cases as tc

U = Fraction(1, 2 ** 24)


# ------------------------------------------------------------------------------------ oracles on the implementation

def oracle_inside(ctx, c, r):
    """start inside [0,n-1]^2 -> after every map every coordinate is inside [0,n-1] (what the property
    asks; the tighter [1,n-1] of the code's clamp is part of the model and checked by the correspondence);
    the lookup appendTracks does on the final state is defined"""
    n = c.n
    ok = True
    moved = False
    pre = [(Fraction(x), Fraction(y)) for x, y in c.parts]
    for k, (o, d) in enumerate(zip(c.ops, r["ops"])):
        for pi, (x, y) in enumerate(d["pos"]):
            bad = None
            for name, v in (("x", x), ("y", y)):
                if isinstance(v, str):
                    bad = "%s is %s" % (name, v)
                elif v < 0 or v > n - 1:
                    bad = "%s = %s outside [0, %d]" % (name, fhex(float(v)), n - 1)
            if bad:
                ctx.violation("impl-oracle", "tracked particle leaves the grid: after map %d (%s) %s" % (k, _opname(o), bad),
                              case=dict(c.replay(), failing_op=k, particle=pi),
                              observed=dict(before=[fhex(float(v)) for v in pre[pi]] if tc._finite([pre[pi]]) else "non-finite",
                                            after=[str(x) if isinstance(x, str) else fhex(float(x)), str(y) if isinstance(y, str) else fhex(float(y))]),
                              expected="0 <= x,y <= %d" % (n - 1),
                              sig=dict(kind="track", clause="inside", op=o["k"], fptrack=o.get("fptrack")))
                return False
            if tc._finite([pre[pi]]) and (x, y) != pre[pi]:
                moved = True
        pre = d["pos"]
    if "u" in r["idx"]:
        ctx.violation("impl-oracle", "appendTracks' axis lookup is undefined for a tracked coordinate",
                      case=c.replay(), observed=r["idx"], expected="indices in [0,%d)" % n,
                      sig=dict(kind="track", clause="lookup"))
        ok = False
    ctx.case_done(("inside", c.cid), moved)
    return ok


def _opname(o):
    if o["k"] == "fp":
        return "fp track=%d dt=%d type=%d" % (o["fptrack"], o["dt"], o["fptype"])
    if o["k"] == "kick":
        return "kick " + o["dir"]
    return o["k"]


def oracle_drift(ctx, c, r):
    """approximation1 moves a particle by the stencil's first moment: -e1*(floor(y) - zero bin) cells on
    interior rows when the stencil contains damping, 0 otherwise (before the clamp)"""
    n = c.n
    pre = [(Fraction(x), Fraction(y)) for x, y in c.parts]
    for k, (o, d) in enumerate(zip(c.ops, r["ops"])):
        if not tc._finite(pre):
            return
        if o["k"] == "fp" and o["fptrack"] == 1:
            e1 = Fraction(f32(o["e1"]))
            pmin, pmax = Fraction(c.axes[2]), Fraction(c.axes[3])
            delta = (pmax - pmin) / (n - 1)
            yc = -pmin / delta
            damp = o["fptype"] in (1, 3)
            lo, hi = (1, n - 2) if o["dt"] == 3 else (2, n - 3)
            for pi, ((x0, y0), (x1, y1)) in enumerate(zip(pre, d["pos"])):
                if isinstance(y1, str):
                    continue
                row = int(y0 // 1)
                exp = -e1 * (row - yc) if (damp and lo <= row <= hi) else Fraction(0)
                expy = min(max(y0 + exp, Fraction(1)), Fraction(n - 1))
                tol = 64 * U * (n + 1) * (1 + e1) + 8 * U * e1 * n / delta
                if abs(y1 - expy) > tol or x1 != x0:
                    ctx.violation("impl-oracle", "approximation1 does not move the particle by the stencil's first moment -e1*p/delta",
                                  case=dict(c.replay(), failing_op=k, particle=pi),
                                  observed=dict(before=fhex(float(y0)), after=fhex(float(y1))), expected=str(float(expy)),
                                  sig=dict(kind="track", clause="drift", fptrack=1, dt=o["dt"]))
                    return
                ctx.case_done(("drift", c.cid, k, pi), damp and lo <= row <= hi and row != yc)
        pre = d["pos"]


def oracle_blob(ctx, c, r):
    """hypotheses of the theorem hold by construction (it >= 2, |offset| <= 3, blob >= 6 cells from the
    border): centre of charge of apply(blob) == particle after applyTo"""
    s, sx, sy = r["imom"]
    px, py = r["ipart"]
    if any(isinstance(v, str) for v in (s, sx, sy, px, py)) or s == 0:
        ctx.violation("impl-oracle", "blob or particle not finite / blob lost", case=c.replay(), observed=[str(v) for v in (s, sx, sy, px, py)],
                      sig=dict(kind="blob", clause="finite"))
        return False
    cx, cy = sx / s, sy / s
    # the centroid is a quotient of double sums of float cells; the cells carry the rounding of the
    # interpolation weights: K*2^-24 relative to the coordinate scale n
    tol = Fraction(0) if c.stream == "exact" else 64 * U * c.n
    if abs(cx - px) > tol or abs(cy - py) > tol:
        ctx.violation("impl-oracle", "centre of charge of the kicked blob and the tracked particle differ",
                      case=c.replay(), observed=dict(centroid=[float(cx), float(cy)], particle=[float(px), float(py)]),
                      expected="equal within %s" % float(tol), sig=dict(kind="blob", clause="centroid", dir=c.dir, it=c.it))
        return False
    moved = (px != Fraction(c.X)) if c.dir == "x" else (py != Fraction(c.Y))
    ctx.case_done(("blob", c.cid), moved)
    return True


def compare_blob(c, r):
    dis = []
    exact = c.stream == "exact"
    tol = Fraction(0) if exact else 16 * U * (c.n + max(abs(Fraction(o)) for o in c.offs))
    for a, b in zip(r["ipart"], r["mpart"]):
        if isinstance(a, str) or abs(a - b) > tol:
            dis.append(dict(what="blob-particle", impl=str(a), model=str(b)))
    ctol = Fraction(0) if exact else 32 * U
    for i, (a, b) in enumerate(zip(r["iout"], r["mout"])):
        if isinstance(a, str) or abs(a - b) > ctol:
            dis.append(dict(what="blob-grid", cell=i, impl=str(a), model=str(b)))
            break
    return dis


def run_ensembles(ctx, count, np_, steps, only=None):
    """particles drawn from the equilibrium keep its mean (the zero-energy bin) and its width
    (variance 1/delta^2, fixed point 1/(delta^2 (1-e1/2))) under the stochastic model: 5-sigma bands"""
    rng = ctx.rng
    tg = ctx.build(harness=("impl_track",))
    specs = list(only) if only is not None else []
    for i in range(count if only is None else 0):
        n = rng.choice([48, 64, 96])
        h = rng.choice([5.0, 6.0])
        sh = 0.0 if i % 2 == 0 else f32(rng.uniform(-0.75, 0.75))      # zero bin off centre
        e1 = rng.choice([0.005, 0.01, 0.02, 0.05])
        every = max(1, steps // 4)
        specs.append(dict(id="e%d" % i, n=n, pmin=f32(-h + sh), pmax=f32(h + sh), np=np_, e1=f32(e1), steps=steps, every=every,
                          seed=rng.randint(1, 2 ** 31 - 1)))
    text = "".join("ens %s %d %s %s %d %s %d %d %d\n" % (s["id"], s["n"], fhex(s["pmin"]), fhex(s["pmax"]), s["np"], fhex(s["e1"]),
                                                       s["steps"], s["every"], s["seed"]) for s in specs)
    rc, out, err = run_driver(tg["impl_track"], text)
    if rc != 0:
        raise RuntimeError("impl_track (ens) failed rc=%d: %s" % (rc, err[-2000:]))
    res = parse_cases(out)
    for s in specs:
        r = res[s["id"]]
        yc, delta, zb = [float(parse_c(t)) for t in r["info"][0]]
        e1 = float(s["e1"])
        v0 = 1.0 / delta ** 2
        ok = True
        for st in r["stat"]:
            k = int(st[0])
            vals = [parse_c(t) for t in st[1:]]
            if any(isinstance(v, str) for v in vals):
                ctx.violation("impl-oracle", "stochastic ensemble statistics are not finite after %d steps" % k, case=dict(kind="ens", **{a: (fhex(b) if isinstance(b, float) else b) for a, b in s.items()}),
                              observed=[str(v) for v in vals], sig=dict(kind="ens", clause="finite"))
                ok = False
                break
            m, v, mn, mx = [float(x) for x in vals]
            # Var_k = (1-e1)^(2k) (V0 - V*) + V*,  V* = 2 e1 / (delta^2 (1-(1-e1)^2))
            vstar = 2 * e1 / delta ** 2 / (1 - (1 - e1) ** 2)
            vk = (1 - e1) ** (2 * k) * (v0 - vstar) + vstar
            band_m = 5 * math.sqrt(vk / s["np"]) + 1e-4 * s["n"]
            band_v = 5 * vk * math.sqrt(2.0 / (s["np"] - 1)) + 1e-4 * vk
            case = dict(kind="ens", steps_done=k, **{a: (fhex(b) if isinstance(b, float) else b) for a, b in s.items()})
            if mn < 0 or mx > s["n"] - 1:
                ctx.violation("impl-oracle", "stochastic tracking: a particle of the ensemble left the grid", case=case,
                              observed=dict(min=mn, max=mx), expected="[0,%d]" % (s["n"] - 1), sig=dict(kind="ens", clause="inside"))
                ok = False
                break
            # both clauses are judged on the same record (a collapsed ensemble - every particle given the same "random" number -
            # has lost its width whether or not its mean has drifted away yet)
            if abs(m - yc) > band_m:
                ctx.violation("impl-oracle", "stochastic tracking does not keep the ensemble mean at the zero-energy bin", case=case,
                              observed=dict(mean=m, variance=v), expected="%g +- %g" % (yc, band_m), sig=dict(kind="ens", clause="mean"))
                ok = False
            if abs(v - vk) > band_v:
                what = "stochastic tracking does not keep the ensemble width of the equilibrium"
                if v <= 1e-6 * vk and mx - mn <= 1e-3:
                    what += " (the ensemble has collapsed onto one point: the same noise for every particle and step)"
                ctx.violation("impl-oracle", what, case=case,
                              observed=dict(variance=v, mean=m, min=mn, max=mx), expected="%g +- %g" % (vk, band_v), sig=dict(kind="ens", clause="variance"))
                ok = False
            if not ok:
                break
        ctx.case_done(("ens", s["id"], s["seed"]), ok)
        ctx.count("ens:e1=%g" % e1)
        ctx.sample(dict(kind="ens", n=s["n"], np=s["np"], e1=e1, steps=s["steps"], zero_bin=yc,
                        last=[float(parse_c(t)) for t in r["stat"][-1][1:]]))


# ------------------------------------------------------------------------------------ time-dependent RF map

def oracle_dyn(ctx, c, r):
    """`rfm->apply(); rfm->applyToAll(ps)` with a DynamicRFKickMap whose offsets change every step, then the drift: the
    centre of charge of the blob put on particle 0 (renewed every c.renew steps) is particle 0 after every map (linear RF kick
    and linear drift are affine, interpolation with >= 3 points reproduces first moments) as long as the blob's support - at most
    two cells wider per map on either side of the particle - is inside the grid; every particle stays inside."""
    n = c.n
    evaluated = 0
    alive = True
    maps = 0
    for k in range(c.steps):
        if c.renew > 0 and k > 0 and k % c.renew == 0:
            alive, maps = True, 0          # the harness has put a fresh blob on particle 0
            px, py = r["pre"][k][0]
            if isinstance(px, str) or isinstance(py, str) or not (4 <= px <= n - 5 and 4 <= py <= n - 5):
                alive = False
        for stage, posl, moml in (("rf", r["rfpos"][k], r["rfmom"][k]), ("drift", r["pos"][k], r["mom"][k])):
            maps += 1
            for pi, (x, y) in enumerate(posl):
                if isinstance(x, str) or isinstance(y, str) or not (0 <= x <= n - 1 and 0 <= y <= n - 1):
                    ctx.violation("impl-oracle", "tracked particle leaves the grid under the time-dependent RF map / drift (step %d, %s)" % (k, stage),
                                  case=dict(c.replay(), step=k, particle=pi), observed=[str(x), str(y)], expected="0 <= x,y <= %d" % (n - 1),
                                  sig=dict(kind="dyn", clause="inside"))
                    return False
            px, py = posl[0]
            margin = 4 + 2 * ((maps + 1) // 2)   # support: the hat's two cells + two cells per map along that map's axis (one kick and one drift per step), and slack
            if not (margin <= px <= n - 1 - margin and margin <= py <= n - 1 - margin):
                alive = False
            if not alive:
                continue
            s0, sx, sy = moml
            if any(isinstance(v, str) for v in moml) or s0 == 0:
                ctx.violation("impl-oracle", "blob lost or not finite under the time-dependent RF map", case=dict(c.replay(), step=k),
                              observed=[str(v) for v in moml], sig=dict(kind="dyn", clause="finite"))
                return False
            cx, cy = sx / s0, sy / s0
            # float cells and float particle: a few roundings at the coordinate scale n per map applied so far
            tol = 8 * U * n * (maps + 1)
            if abs(cx - px) > tol or abs(cy - py) > tol:
                nxt = ""
                if k + 1 < c.steps and k < len(r["offs"]) - 1:
                    i0 = int(px)
                    nxt = " (this step's offset at the particle's column: %s, the next step's: %s)" % (
                        float(r["offs"][k][i0]), float(r["offs"][k + 1][i0]))
                ctx.violation("impl-oracle", "the tracked particle does not follow the centre of charge of the blob it started in under the "
                              "time-dependent RF map: after step %d (%s) they differ%s" % (k, stage, nxt),
                              case=dict(c.replay(), step=k, stage=stage),
                              observed=dict(centroid=[float(cx), float(cy)], particle=[float(px), float(py)]),
                              expected="equal within %g cells" % float(tol), sig=dict(kind="dyn", clause="centroid", stage=stage))
                return False
            evaluated += 1
    ctx.case_done(("dyn", c.cid), evaluated >= 8)
    return True


def run_dyn_stage(ctx, count, dis):
    cases = tc.gen_dyn(ctx, count)
    res = tc.run_dyn(ctx, cases)
    for c in cases:
        d = tc.compare_dyn(c, res[c.cid])
        if d:
            dis.append(dict(case=c.replay(), detail=d[:3], sig=dict(kind="dyn", stage="correspondence", what=d[0]["what"])))
        ctx.evaluations += 1
        oracle_dyn(ctx, c, res[c.cid])
    ctx.sample(dict(kind="dyn", id=cases[0].cid, n=cases[0].n, steps=cases[0].steps, modampl=cases[0].modampl, phasespread=cases[0].phasespread,
                    queue_head=[[float(a), float(b)] for a, b in res[cases[0].cid]["queue"][:3]]))


def oracle_rf(ctx, c, r):
    """`rfm->apply(); rfm->applyToAll(ps)` for every RF map main() can build: the charge of the blob put on particle 0 sits in the two
    columns next to the particle with the particle's weights, the kick moves column i by offs_k[i] (interpolation with >= 3 points
    reproduces first moments while the support is inside), so the centre of charge moves by the particle's own interpolation of the
    SAME step's table.  Compared after every step.  The allowance admits any particle transport that evaluates this step's kick
    between the two mesh columns more finely than the straight line does (second difference of this step's table), and float rounding."""
    n = c.n
    evaluated = 0
    later = 0
    alive, maps = True, 0
    allow = Fraction(0)
    for k in range(min(c.steps, len(r["rfpos"]))):
        if c.renew > 0 and k > 0 and k % c.renew == 0:
            alive, maps, allow = True, 0, Fraction(0)
        px0, py0 = r["pre"][k][0]
        if maps == 0 and (isinstance(px0, str) or isinstance(py0, str) or not (4 <= px0 <= n - 5 and 4 <= py0 <= n - 5)):
            alive = False
        maps += 1
        for pi, (x, y) in enumerate(r["rfpos"][k]):
            if isinstance(x, str) or isinstance(y, str) or not (0 <= x <= n - 1 and 0 <= y <= n - 1):
                ctx.violation("impl-oracle", "tracked particle leaves the grid under the RF map (%s, step %d)" % (c.style(), k),
                              case=dict(c.replay(), step=k, particle=pi), observed=[str(x), str(y)], expected="0 <= x,y <= %d" % (n - 1),
                              sig=dict(kind="rfblob", clause="inside", linear=c.linear, dynamic=c.dynamic))
                return False
        px, py = r["rfpos"][k][0]
        margin = 4 + 2 * maps          # the hat's two cells + two cells per kick along the energy axis, and slack
        if not (margin <= py <= n - 1 - margin and 2 <= px <= n - 3):
            alive = False
        if not alive:
            continue
        s0, sx, sy = r["rfmom"][k]
        if any(isinstance(v, str) for v in r["rfmom"][k]) or s0 == 0:
            ctx.violation("impl-oracle", "blob lost or not finite under the RF map (%s)" % c.style(), case=dict(c.replay(), step=k),
                          observed=[str(v) for v in r["rfmom"][k]], sig=dict(kind="rfblob", clause="finite"))
            return False
        cx, cy = sx / s0, sy / s0
        offs = r["offs"][k]
        i0 = int(px)
        curv = max(abs(offs[i - 1] - 2 * offs[i] + offs[i + 1]) for i in range(max(1, i0 - 1), min(n - 2, i0 + 2) + 1))
        allow += curv / 4
        tol = 8 * U * n * (maps + 1) + allow
        if abs(cx - px) > tol or abs(cy - py) > tol:
            xf = px - i0
            same = py0 - ((1 - xf) * offs[i0] + xf * offs[min(i0 + 1, n - 1)])
            ctx.violation("impl-oracle", "the tracked particle does not follow the centre of charge of the blob it started in under the RF map "
                          "(%s): after step %d they differ; KickMap::applyTo over the table the grid was kicked with in this step would put "
                          "the particle at energy coordinate %s" % (c.style(), k, float(same)),
                          case=dict(c.replay(), step=k),
                          observed=dict(centroid=[float(cx), float(cy)], particle=[float(px), float(py)],
                                        modulation_of_this_step=[float(v) for v in r["queue"][k]] if k < len(r["queue"]) else None),
                          expected="equal within %g cells" % float(tol),
                          sig=dict(kind="rfblob", clause="centroid", linear=c.linear, dynamic=c.dynamic))
            return False
        evaluated += 1
        if k > 0:
            later += 1
    ctx.case_done(("rfblob", c.cid), evaluated >= 4 and later >= 3)
    return True


def run_rf_stage(ctx, count, dis):
    cases = tc.gen_rf(ctx, count)
    res = tc.run_rf(ctx, cases)
    for c in cases:
        d = tc.compare_rf(c, res[c.cid])
        if d:
            dis.append(dict(case=c.replay(), detail=d[:3], sig=dict(kind="rfblob", stage="correspondence", what=d[0]["what"])))
        ctx.evaluations += 1
        oracle_rf(ctx, c, res[c.cid])
    c = cases[0]
    ctx.sample(dict(kind="rfblob", id=c.cid, setup=c.style(), n=c.n, steps=c.steps,
                    queue_head=[[float(a), float(b)] for a, b in res[c.cid]["queue"][:3]],
                    particle0=[[float(x), float(y)] for x, y in (l[0] for l in res[c.cid]["rfpos"][:3])]))


def run_load_stage(ctx, count, dis):
    """main()'s loading of the tracking file through PhaseSpace::x / y: generated definitions against the implementation, and
    the oracle: whatever the file holds, the particle starts inside [0, n-1]^2"""
    for s in tc.run_load(ctx, count):
        n = s["n"]
        case = dict(kind="load", n=n, axes=[fhex(a) for a in s["axes"]], points=[[fhex(f32(q)), fhex(f32(p))] for q, p in s["pts"]])
        bad = None
        for j, (x, y) in enumerate(s["ipos"]):
            if isinstance(x, str) or isinstance(y, str) or not (0 <= x <= n - 1 and 0 <= y <= n - 1):
                bad = (j, x, y)
                break
        if bad:
            ctx.violation("impl-oracle", "a coordinate of the tracking file is loaded to a position outside the grid", case=case,
                          observed=dict(point=bad[0], pos=[str(bad[1]), str(bad[2])]), expected="0 <= x,y <= %d" % (n - 1),
                          sig=dict(kind="load", clause="inside"))
        if "mpos" not in s:
            dis.append(dict(case=case, detail="model output missing", sig=dict(kind="load", stage="correspondence")))
        else:
            d0, d1 = s["impl_axes"][1], s["impl_axes"][3]
            for j, ((ix, iy), (mx, my)) in enumerate(zip(s["ipos"], s["mpos"])):
                if isinstance(mx, str) or isinstance(my, str) or isinstance(ix, str) or isinstance(iy, str):
                    dis.append(dict(case=case, detail=dict(what="load-non-finite", point=j, impl=[str(ix), str(iy)], model=[str(mx), str(my)]),
                                    sig=dict(kind="load", stage="correspondence")))
                    break
                q, p = Fraction(f32(s["pts"][j][0])), Fraction(f32(s["pts"][j][1]))
                # (c - min)/delta: one subtraction and one division in float
                tx = Fraction(0) if s["exact"] else 4 * U * (abs(q) + abs(s["impl_axes"][0])) / abs(d0) + 4 * U * n
                ty = Fraction(0) if s["exact"] else 4 * U * (abs(p) + abs(s["impl_axes"][2])) / abs(d1) + 4 * U * n
                if abs(ix - mx) > tx or abs(iy - my) > ty:
                    dis.append(dict(case=case, detail=dict(what="load-position", point=j, impl=[str(ix), str(iy)], model=[str(mx), str(my)]),
                                    sig=dict(kind="load", stage="correspondence")))
                    break
        ctx.case_done(("load", s["id"]), True)
        ctx.count("load:" + ("exact" if s["exact"] else "tol"))



# ------------------------------------------------------------------------------------ program level

def run_program(ctx, count, mode="std"):
    """inovesa itself with a tracking file holding edge particles: every record of /Particles/data must lie
    within the axes; the coordinates are looked up in the axis arrays (HDF5File::appendTracks: q(floor x), p(floor y)), so
    every recorded position must be a value of /Info/AxisValues_z and every recorded energy a value of
    /Info/AxisValues_E, and the first record (written before any map is applied) must be the cell the coordinate given
    in the tracking file falls into.  Half of the runs shift the two axes differently (--PhaseSpaceShiftX/Y).
    mode "fp2": tracking model 2 on a grid of +-20 sigma - the Gaussian's tails underflow to subnormal numbers and to exact
    zeros in float, the outermost rows of the stencil table are zeroed - with particles on the outermost energy rows: the
    division `offset /= charge` meets 0/0 and x/0 there, and every recorded coordinate must still be finite and on the axes."""
    rng = ctx.rng
    tg = ctx.build(harness=("impl_track", "h5cat"), want_binary=True)
    env = vp_build.xdg_env()
    for i in range(count):
        n = rng.choice([32, 48, 64])
        fptrack = i % 4 if mode == "std" else 2
        steps = rng.choice([20, 40])
        shx, shy = (0.0, 0.0)
        half = 6.0 if mode == "std" else 20.0
        if i % 2 == 1 and mode == "std":
            shx, shy = rng.choice([(0.0, 3.0), (2.0, -1.0), (-2.5, 1.0), (1.5, 0.0), (3.0, 0.5)])
        with tempfile.TemporaryDirectory(prefix="c15-") as td:
            tf = os.path.join(td, "track.txt")
            if mode == "std":
                pts = [(-5.99, -5.99), (5.99, 5.99), (-7.0, 7.0), (0.0, 0.0), (6.0, -6.0), (0.1, 5.9), (-5.9, 0.2)]
                pts += [(rng.uniform(-6, 6), rng.uniform(-6, 6)) for _ in range(6)]
            else:
                dl = 2 * half / (n - 1)
                # outermost energy rows (0, 1, n-2, n-1), rows where the density is subnormal (|p| ~ 14..14.6), the core
                pts = [(0.0, -half), (0.0, half), (1.0, half - 0.5 * dl), (-1.0, -half + 0.5 * dl), (0.3, half - 1.5 * dl),
                       (-0.3, -half + 1.5 * dl), (half, half), (-half, -half), (0.0, 14.3), (0.5, -14.5), (13.0, 6.0), (0.0, 0.0)]
                pts += [(rng.uniform(-2, 2), rng.choice([-1, 1]) * rng.uniform(half - 3 * dl, half)) for _ in range(4)]
            with open(tf, "w") as f:
                for q, p in pts:
                    f.write("%r %r\n" % (q, p))
            h5 = os.path.join(td, "out.h5")
            cmd = ["timeout", "120", tg["inovesa"], "--gui", "false", "-s", str(n), "-T", "0.5", "-N", str(steps),
                   "-n", "2", "--tracking", tf, "--FPTrack", str(fptrack), "-o", h5, "-I", "1e-4"]
            if mode != "std":
                cmd += ["-P", repr(2 * half), "--derivation", str(3 + i % 2)]
            if (shx, shy) != (0.0, 0.0):
                cmd += ["--PhaseSpaceShiftX", repr(shx), "--PhaseSpaceShiftY", repr(shy)]
            r = subprocess.run(cmd, capture_output=True, text=True, env=env, cwd=td)
            case = dict(kind="program", mode=mode, n=n, fptrack=fptrack, steps=steps, particles=pts, shift_x=shx, shift_y=shy, cmd=" ".join(cmd[2:]))
            if not os.path.exists(h5):
                # how a crash shows: no file or a signal
                ctx.violation("impl-oracle", "inovesa did not produce a results file with tracking on (rc=%d)" % r.returncode, case=case,
                              observed=(r.stdout + r.stderr)[-600:], sig=dict(kind="program", clause="ran", fptrack=fptrack))
                continue
            d = subprocess.run(["timeout", "60", tg["h5cat"], h5, "--values", "--only", "/Particles/data", "--only", "/Info/AxisValues_z",
                                "--only", "/Info/AxisValues_E"], capture_output=True, text=True)
            vals = _h5vals(d.stdout)
            az, ae = _h5vals(d.stdout, "/Info/AxisValues_z"), _h5vals(d.stdout, "/Info/AxisValues_E")
            ctx.extra.setdefault("program_runs", []).append(dict(n=n, fptrack=fptrack, rc=r.returncode, records=len(vals), shift=[shx, shy]))
            if r.returncode != 0 or not vals:
                ctx.violation("impl-oracle", "inovesa failed or wrote no /Particles/data (rc=%d)" % r.returncode, case=case,
                              observed=(r.stdout + r.stderr)[-600:] + d.stderr[-300:], sig=dict(kind="program", clause="ran", fptrack=fptrack))
                continue
            num = lambda l: [v for v in l if not isinstance(v, str)]
            lim = max([abs(v) for v in num(az) + num(ae)] + [Fraction(half)]) + Fraction(1, 1000)
            bad = [v for v in vals if isinstance(v, str) or abs(v) > lim]
            if bad:
                ctx.violation("impl-oracle", "/Particles/data holds a coordinate outside the axes", case=case,
                              observed=[str(b) for b in bad[:5]], expected="|q|,|p| <= %s" % float(lim), sig=dict(kind="program", clause="inside", fptrack=fptrack))
            elif len(az) == n and len(ae) == n and len(vals) % (2 * len(pts)) == 0:
                sz, se = set(az), set(ae)
                offq = [(k, str(float(v))) for k, v in enumerate(vals) if k % 2 == 0 and v not in sz]
                offp = [(k, str(float(v))) for k, v in enumerate(vals) if k % 2 == 1 and v not in se]
                if offq or offp:
                    ctx.violation("impl-oracle", "a recorded particle coordinate is not a value of its axis (position: /Info/AxisValues_z, energy: /Info/AxisValues_E)",
                                  case=case, observed=dict(position=offq[:4], energy=offp[:4]), expected="appendTracks records q(floor x), p(floor y)",
                                  sig=dict(kind="program", clause="axis-values", fptrack=fptrack))
                else:
                    # first record: the cell the file coordinate falls into (PhaseSpace::x/y clamp to the grid, then truncation)
                    def cell(c, ax):
                        lo, dl = ax[0], (ax[-1] - ax[0]) / (n - 1)
                        g = min(max(Fraction(0), (Fraction(c) - lo) / dl), Fraction(n - 1))
                        return g
                    for j, (q, p) in enumerate(pts):
                        for k, (c, ax, nm) in enumerate(((q, az, "position"), (p, ae, "energy"))):
                            g = cell(f32(c), ax)
                            rec = vals[2 * j + k]
                            idx = ax.index(rec)
                            # float rounding of (c-min)/delta may move a coordinate that sits within 1e-4 cells of a cell boundary
                            if not (g - 1 - Fraction(1, 10000) <= idx <= g + Fraction(1, 10000)):
                                ctx.violation("impl-oracle", "the first record of /Particles/data is not the cell the tracking file's coordinate falls into (%s axis)" % nm,
                                              case=case, observed=dict(particle=j, file_coordinate=c, recorded=float(rec), recorded_cell=idx, grid_coordinate=float(g)),
                                              expected="cell floor(grid coordinate)", sig=dict(kind="program", clause="first-record", fptrack=fptrack))
                                break
            ctx.case_done(("program", mode, i, n, fptrack, shx, shy), True)
            ctx.count("program:fptrack%d" % fptrack if mode == "std" else "program:fptrack2-underflowed-tails")
            if mode == "std":
                ctx.count("program:%s" % ("shifted" if (shx, shy) != (0.0, 0.0) else "unshifted"))


def run_program_fp2(ctx, count):
    run_program(ctx, count, mode="fp2")


def run_program_rfmod(ctx, count, linear=True):
    """(linear=False, family st3kick: the same with the SINUSOIDAL RF, `--LinearRF false`: the bunch is short against the RF wave length, so the kick is
    affine to well below the oracle's half cell of slack; a particle transport that evaluates the RF with other parameters than the same step's grid
    table - construction-time phase, unit amplitude - leaves the centre of charge by the modulation's kick.)
    inovesa with RF phase modulation (or RF phase noise) and a tracked particle started on the centre of charge: main() calls
    `rfm->apply()` then `rfm->applyToAll(trackme)`, so the particle must get the same step's kick as the grid.  With linear RF,
    no wake and weak damping the maps are affine and the recorded track (/Particles/data: the mesh point below the particle)
    must follow the recorded centre of charge (/BunchPosition, /EnergyAverage; same normalised units) within one cell."""
    rng = ctx.rng
    tg = ctx.build(harness=("impl_track", "h5cat"), want_binary=True)
    env = vp_build.xdg_env()
    for i in range(count):
        n = rng.choice([48, 64])
        N = 20
        T = rng.choice([1.5, 2.0])
        noise = i % 2 == 1
        amp = rng.choice([0.5, 0.6, 0.8])
        fmod = rng.choice([40000.0, 32000.0, 26667.0])
        with tempfile.TemporaryDirectory(prefix="c15-") as td:
            tf = os.path.join(td, "track.txt")
            pts = [(0.0, 0.0), (1.0, -0.5), (-2.0, 1.5), (5.9, -5.9)]
            with open(tf, "w") as f:
                for q, p in pts:
                    f.write("%r %r\n" % (q, p))
            h5 = os.path.join(td, "out.h5")
            cmd = ["timeout", "120", tg["inovesa"], "--gui", "false", "-s", str(n), "-N", str(N), "-T", repr(T), "-n", "1", "-f", "8000",
                   "--LinearRF", "true" if linear else "false", "-Z", "", "--UseCSR", "false", "-I", "1e-6", "--tracking", tf, "--FPTrack", str(i % 2),
                   "-o", h5]
            if noise:
                cmd += ["--RFPhaseSpread", repr(2.5 * amp)]
            else:
                cmd += ["--RFPhaseModAmplitude", repr(amp), "--RFPhaseModFrequency", repr(fmod)]
            r = subprocess.run(cmd, capture_output=True, text=True, env=env, cwd=td)
            case = dict(kind="program-rfmod", n=n, steps_per_Ts=N, rotations=T, noise=noise, amplitude_deg=amp, fmod=fmod, particles=pts,
                        linear_rf=linear, cmd=" ".join(cmd[2:]))
            if r.returncode != 0 or not os.path.exists(h5):
                ctx.violation("impl-oracle", "inovesa failed with RF modulation and tracking (rc=%d)" % r.returncode, case=case,
                              observed=(r.stdout + r.stderr)[-600:], sig=dict(kind="program-rfmod", clause="ran"))
                continue
            d = subprocess.run(["timeout", "60", tg["h5cat"], h5, "--values", "--only", "/Particles/data", "--only", "/Info/AxisValues_z",
                                "--only", "/Info/AxisValues_E", "--only", "/BunchPosition/data", "--only", "/EnergyAverage/data",
                                "--only", "/RFKicks/data"], capture_output=True, text=True)
            tr = _h5vals(d.stdout)
            az, ae = _h5vals(d.stdout, "/Info/AxisValues_z"), _h5vals(d.stdout, "/Info/AxisValues_E")
            bq, be = _h5vals(d.stdout, "/BunchPosition/data"), _h5vals(d.stdout, "/EnergyAverage/data")
            rfk = _h5vals(d.stdout, "/RFKicks/data")
            nrec = len(bq)
            if not tr or nrec < 5 or len(be) != nrec or len(tr) != 2 * len(pts) * nrec or len(az) != n or len(ae) != n or \
                    any(isinstance(v, str) for v in tr + bq + be + az + ae):
                ctx.violation("impl-oracle", "results file of the run with RF modulation and tracking is incomplete or not finite", case=case,
                              observed=dict(track_values=len(tr), records=nrec), sig=dict(kind="program-rfmod", clause="data"))
                continue
            dq, de = (az[-1] - az[0]) / (n - 1), (ae[-1] - ae[0]) / (n - 1)
            moved = Fraction(0)
            ok = True
            for j in range(nrec):
                tq, te = tr[2 * len(pts) * j], tr[2 * len(pts) * j + 1]
                if abs(bq[j]) > Fraction(7, 2) or abs(be[j]) > Fraction(7, 2):
                    break          # the bunch gets close to the border of the grid: its centre of charge is no longer that of the whole bunch
                if j + 1 < nrec:
                    moved = max(moved, abs(be[j + 1] - be[j]) / de)     # the kick of one step, in cells
                # the particle lies in [track, track + one cell); half a cell of slack for damping, interpolation and float
                for nm, c, t, dl in (("position", bq[j], tq, dq), ("energy", be[j], te, de)):
                    if not (-dl / 2 <= c - t <= dl * 3 / 2):
                        kick = ""
                        if len(rfk) >= 2 * (j + 1):
                            kick = "; RF phases of steps %d and %d: %s, %s" % (j - 1, j, float(rfk[2 * (j - 1)]) if j >= 1 else None, float(rfk[2 * j]))
                        ctx.violation("impl-oracle", "the track of the particle started on the centre of charge leaves the recorded centre of charge "
                                      "under RF %s (%s, record %d)%s" % ("phase noise" if noise else "phase modulation", nm, j, kick), case=case,
                                      observed=dict(record=j, track=float(t), centre_of_charge=float(c), cell=float(dl)),
                                      expected="track <= centre of charge < track + one cell (half a cell of slack)",
                                      sig=dict(kind="program-rfmod", clause="centroid", axis=nm))
                        ok = False
                        break
                if not ok:
                    break
            ctx.extra.setdefault("program_rfmod_runs", []).append(dict(n=n, noise=noise, records=nrec, largest_energy_change_of_one_step_in_cells=float(moved)))
            ctx.case_done(("program-rfmod", i, n, noise, linear), moved >= 2)
            ctx.count("program-rfmod:%s%s" % ("noise" if noise else "modulation", "" if linear else "-sinusoidal-rf"))


def _h5vals(text, path="/Particles/data"):
    vals = []
    for line in text.splitlines():
        p = line.split()
        if len(p) > 1 and p[0] == "data" and p[1] == path:
            vals += [parse_c(t) for t in p[2:]]
    return vals


# ------------------------------------------------------------------------------------ the check

def run(ctx, only_case=None):
    ctx.rule = ("track cases: n 8..32, 4..12 particles on cell centres / cell edges / the grid border / k/16 / arbitrary floats, sequences of "
                "1..40 maps (KickMap x|y with offsets of both signs incl. beyond the grid, DriftMap, RFKickMap, Identity, FokkerPlanckMap with "
                "every tracking model x both stencils x every fptype; approximation2 on empty/sparse/signed/positive grids), driven through "
                "SourceMap::applyToAll; model evaluated from the implementation's state before each map: exact stream (dyadic inputs) bit "
                "equality, tolerance stream K*2^-24*cond. Oracles on the implementation: inside-grid after every map, appendTracks lookup "
                "defined, approximation1 drift = stencil first moment, blob centroid = particle, stochastic ensembles (mean, variance, 5 sigma). "
                "Non-trivial: a particle moved / blob moved / drift row interior and off the zero bin. "
                "Every track case is also compared with the model assembled from the code generated by translate/track2coq.py (gpos); tracking model 2 also on grids "
                "with exact-zero rows and subnormal cells. dyntrack cases: DynamicRFKickMap (linear, phase modulation / phase + amplitude noise from the map's own "
                "__calcModulation with a known seed) + DriftMap driven as main() does over 12-40 steps on n = 56|64, unit hat-blob on particle 0 renewed every 4|6 "
                "steps: per step offsets and particles against the generated apply() over the queue model, oracle blob centroid = particle while the support is inside "
                "(non-trivial: >= 8 evaluated maps). rfblob cases: every RF map main() can build (RFKickMap / DynamicRFKickMap x linear / sinusoidal constructor; "
                "dynamic: phase modulation | phase noise | amplitude noise | all three) on n = 64|72|80, sinusoidal kick amplitude 1-2.5 cells at 0.05-0.12 rad of RF "
                "phase per cell, driven `rfm->apply(); rfm->applyToAll(ps)` over 8-14 steps, unit hat-blob on particle 0 (within 5 columns of the synchronous column) "
                "renewed every 3|4 steps, the kicked grid is the next step's source: per step every particle against the generated KickMap::applyTo over the table "
                "printed after the SAME step's apply(); oracle blob centroid = particle after EVERY step within float rounding + 1/4 of the table's second "
                "difference at the particle's columns (non-trivial: >= 4 evaluated steps, >= 3 of them after the first). load cases: grid->x(q), grid->y(p) against the generated PhaseSpace::x/y. Program level: 4 runs over the four FPTrack "
                "values, 2 runs FPTrack 2 on a +-20 sigma grid (underflowed tails, particles on the outermost rows), 2 runs with RF phase modulation / noise: track of the "
                "particle started at (0,0) within [-1/2, 3/2] cells of /BunchPosition, /EnergyAverage (non-trivial: a step changes the mean energy by >= 2 cells).")
    coq = vp_coq.full_check("C15", ctx, fams=("track",))
    q = ctx.quick()
    dis = []
    cases = tc.gen_cases(ctx, 600 if q else 4000)
    impl = tc.run_impl(ctx, cases)
    model = tc.run_model(ctx, cases, impl)
    for c in cases:
        d = tc.compare_case(c, impl[c.cid], model)
        if d:
            dis.append(dict(case=c.replay(), detail=d[:3], sig=dict(kind="track", stage="correspondence", what=d[0]["what"])))
        ctx.evaluations += 1
        oracle_inside(ctx, c, impl[c.cid])
        oracle_drift(ctx, c, impl[c.cid])
    ctx.sample(cases[0].describe())
    ctx.sample(cases[1].describe())
    blobs = tc.gen_blobs(ctx, 200 if q else 1500)
    bres = tc.run_blobs(ctx, blobs)
    for b in blobs:
        d = compare_blob(b, bres[b.cid])
        if d:
            dis.append(dict(case=b.replay(), detail=d[:3], sig=dict(kind="blob", stage="correspondence")))
        ctx.evaluations += 1
        oracle_blob(ctx, b, bres[b.cid])
    ctx.sample(blobs[0].replay())
    run_dyn_stage(ctx, 8 if q else 60, dis)
    run_rf_stage(ctx, 16 if q else 120, dis)
    run_load_stage(ctx, 20 if q else 200, dis)
    run_ensembles(ctx, 6 if q else 16, 4000 if q else 20000, 400 if q else 1200)
    run_program(ctx, 4 if q else 12)
    run_program_fp2(ctx, 2 if q else 8)
    run_program_rfmod(ctx, 2 if q else 10)
    # (family st3kick) sinusoidal RF + dynamic RF + tracking at program level, on its own PRNG (the draws of the other stages stay as they were)
    import random as _random
    _saved, ctx.rng = ctx.rng, _random.Random(ctx.seed * 1000003 + 107)
    try:
        run_program_rfmod(ctx, 2 if q else 10, linear=False)
    finally:
        ctx.rng = _saved
    ctx.extra["correspondence_disagreements"] = len(dis)
    ctx.assumptions += ["exact-arithmetic model; rounding handled by the exact/tolerance streams (DESIGN 3); the clamp is exact in float, so the "
                        "inside-grid theorem transfers to the float code whatever the rounding of the unclamped value",
                        "the random number of the stochastic model is an input of the model (read from a copy of the map's own generator)",
                        "stochastic_moments is about an abstract linear expectation; the ensembles test the implementation's generator statistically"]
    conclude(ctx, coq, dis)


def replay(ctx, rp):
    case = rp.get("case") or {}
    if case.get("kind") == "track":
        c = tc.case_from_replay(case)
        impl = tc.run_impl(ctx, [c])
        oracle_inside(ctx, c, impl[c.cid])
        oracle_drift(ctx, c, impl[c.cid])
        model = tc.run_model(ctx, [c], impl)
        d = tc.compare_case(c, impl[c.cid], model)
        if d and not ctx.violations:
            ctx.violation("correspondence", "model and implementation disagree on the replayed case", case=case, observed=d[:3],
                          sig=dict(kind="track", stage="correspondence"), no_input=True)
    elif case.get("kind") == "blob":
        b = tc.blob_from_replay(case)
        r = tc.run_blobs(ctx, [b])
        oracle_blob(ctx, b, r[b.cid])
    elif case.get("kind") == "ens":
        ctx.rule = "replay of one recorded ensemble (stochastic tracking model, same seed)"
        fx = lambda v: float.fromhex(v) if isinstance(v, str) and "0x" in v else v
        spec = {k: fx(case[k]) for k in ("id", "n", "pmin", "pmax", "np", "e1", "steps", "every", "seed")}
        run_ensembles(ctx, 0, 0, 0, only=[spec])
    elif case.get("kind") == "dyn":
        c = tc.dyn_from_replay(case)
        r = tc.run_dyn(ctx, [c])
        oracle_dyn(ctx, c, r[c.cid])
        d = tc.compare_dyn(c, r[c.cid])
        if d and not ctx.violations:
            ctx.violation("correspondence", "model and implementation disagree on the replayed case", case=case, observed=d[:3],
                          sig=dict(kind="dyn", stage="correspondence"), no_input=True)
    elif case.get("kind") == "rfblob":
        c = tc.rf_from_replay(case)
        r = tc.run_rf(ctx, [c])
        oracle_rf(ctx, c, r[c.cid])
        d = tc.compare_rf(c, r[c.cid])
        if d and not ctx.violations:
            ctx.violation("correspondence", "model and implementation disagree on the replayed case", case=case, observed=d[:3],
                          sig=dict(kind="rfblob", stage="correspondence"), no_input=True)
    else:
        run(ctx)
