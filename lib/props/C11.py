"""C11 - continuing from a results file equals never having stopped.

Program level: triples (leg 1 over n1 steps with every phase space saved, leg 2 of n2 steps started from
a chosen record of leg 1, one uninterrupted run) through the real binary.
 exact stream : the extracted hyperslab-read model (Model/Records.v read_ps/use_step) applied to leg 1's
                /PhaseSpace/data must select the record the program loaded; for RenormalizeCharge < 0 the
                first phase space of leg 2 is that record bit for bit, and so is the final phase space vs
                the single run (Theorem C11_continuation_equiv, first disjunct: no hypotheses);
 tolerance    : RenormalizeCharge = 0 (one stale normalisation at the joint, Theorem C11_continuation_renorm0)
                and r > 0 dividing the split point (second disjunct) are compared within a rounding bound;
 refusal      : missing / truncated / text / two-bunch start files must be refused with a message."""
import math, os, shutil, struct
from fractions import Fraction
from vp_common import *
import vp_coq, vp_build
import h5_cases as hc

EPS = 2.0 ** -24


def next32(x, k):
    """k-th binary32 neighbour of x > 0"""
    i = struct.unpack("I", struct.pack("f", x))[0] + k
    return struct.unpack("f", struct.pack("I", i))[0]


def gen_triple(rng, i, quick):
    n = rng.choice([16, 20, 24, 32]) if quick else rng.randint(16, 48)
    steps = rng.choice([8, 16, 32])
    n1 = rng.randint(2, 2 * steps)
    n2 = rng.randint(1, 2 * steps)
    outstep = rng.choice([1, 2, 3, 4, n1, max(1, n1 // 2)])
    imp = rng.choice(["none", "rw", "pp", "none"])
    tags1 = [k for k in range(n1) if k % outstep == 0] + [n1]
    j = rng.choice([None, None, -1, 0, len(tags1) - 1, rng.randrange(len(tags1)), -rng.randint(1, len(tags1))])
    kstart = tags1[-1 if j is None else j]
    rk = rng.random()
    if rk < 0.35:
        renorm = -1
    elif rk < 0.6:
        renorm = 0
    else:
        divs = [r for r in range(1, max(kstart, 1) + 1) if kstart % r == 0] or [1]
        renorm = rng.choice(divs)
    kw = dict(n=n, steps=steps, outstep=outstep, save=1, currents=[rng.choice([1e-4, 3e-4, 5e-4])], renorm=renorm,
              shiftx=rng.choice([0, 0, 1]), shifty=rng.choice([0, 0, -1]), padding=rng.choice([2, 4]))
    if imp == "none":
        kw.update(gap=0)
    elif imp == "rw":
        kw.update(gap=0.03, usecsr=0, wallcond=3.7e7)
    else:
        kw.update(gap=0.03)
    return dict(cid="t%d" % i, kw=kw, n1=n1, n2=n2, j=j, kstart=kstart, imp=imp, tags1=tags1)


def small_extent_triples(seed, quick):
    """triples on grids that CUT the start Gaussian (PhaseSpaceSize 5..8 instead of 12, some shifted so that one side is cut
    at less than 2 sigma): the object readPhaseSpace() constructs before it reads the record is then a truncated Gaussian,
    and whatever its constructor leaves in the cached charge is what main()'s initial normalize() divides by.  Own PRNG
    (the base stream keeps its draws).  No impedance (the property's quantifier: below threshold), RenormalizeCharge 0 / k
    (for < 0 nothing is normalised) and one -1 control."""
    import random
    rng = random.Random(seed * 6007 + 11)
    out = []
    m = 8 if quick else 40
    for i in range(m):
        n = rng.choice([16, 20, 24, 32])
        steps = rng.choice([8, 16])
        n1 = rng.randint(2, steps)
        n2 = rng.randint(1, steps)
        outstep = rng.choice([1, 2, n1])
        tags1 = [k for k in range(n1) if k % outstep == 0] + [n1]
        j = rng.choice([None, None, 0, rng.randrange(len(tags1))])
        kstart = tags1[-1 if j is None else j]
        divs = [r for r in range(1, max(kstart, 1) + 1) if kstart % r == 0] or [1]
        renorm = [0, 0, rng.choice(divs), 0, rng.choice(divs), -1, 0, rng.choice(divs)][i % 8]
        pq = [6, 5, 7, 8, 6, 6, 7.5, 5.5][i % 8]
        sx, sy = rng.choice([(0, 0), (0, 0), (2, 0), (0, -2), (3, 1), (-2.5, 2)])
        kw = dict(n=n, steps=steps, outstep=outstep, save=1, currents=[rng.choice([1e-4, 3e-4])], renorm=renorm,
                  shiftx=sx, shifty=sy, padding=2, gap=0, pqsize=pq)
        out.append(dict(cid="p%d" % i, kw=kw, n1=n1, n2=n2, j=j, kstart=kstart, imp="none", tags1=tags1, extent=pq))
    return out


def interrupted_triples(seed, quick):
    """triples whose FIRST LEG IS INTERRUPTED (SIGINT at a point inside the main loop, any part of the body: maps, output block,
    loop head); the continuation starts from the last record of the file the program leaves and is compared with the
    uninterrupted run over (tag of that record) + n2 steps.  Own PRNG.  RenormalizeCharge -1 (bit equality) and 0."""
    import random
    rng = random.Random(seed * 9349 + 29)
    out = []
    for i in range(8 if quick else 60):
        n = rng.choice([16, 20, 24])
        steps = rng.choice([8, 16])
        n1 = rng.randint(3, 2 * steps)
        n2 = rng.randint(1, steps)
        outstep = rng.choice([1, 2, 3, n1, n1 + 1])
        imp = rng.choice(["none", "rw", "pp", "none"])
        kw = dict(n=n, steps=steps, outstep=outstep, save=1, currents=[rng.choice([1e-4, 3e-4, 5e-4])], renorm=rng.choice([-1, -1, -1, 0]),
                  shiftx=rng.choice([0, 0, 1]), shifty=rng.choice([0, 0, -1]), padding=rng.choice([2, 4]))
        if imp == "none":
            kw.update(gap=0)
        elif imp == "rw":
            kw.update(gap=0.03, usecsr=0, wallcond=3.7e7)
        else:
            kw.update(gap=0.03)
        out.append(dict(cid="i%d" % i, kw=kw, n1=n1, n2=n2, j=None, kstart=None, imp=imp, tags1=None,
                        sigint=dict(frac=rng.random(), at=None)))
    return out


def rot_of(k, steps):
    return repr(k / float(steps))          # dyadic: exact in binary32 and in decimal


def ps_records(h, n):
    dm = h.dims("/PhaseSpace/data")
    v = h.values("/PhaseSpace/data")
    sz = dm[1] * n * n
    return [v[r * sz:(r + 1) * sz] for r in range(dm[0])], dm


def run_triple(ctx, tg, t, dis):
    wd = hc.workdir()
    try:
        kw, n = t["kw"], t["kw"]["n"]
        steps = kw["steps"]
        case = dict(t)
        f1, f2, f3 = (os.path.join(wd, x) for x in ("leg1.h5", "leg2.h5", "single.h5"))
        c1 = hc.Cfg(rot=rot_of(t["n1"], steps), **kw)
        env1, intr = None, ""
        if t.get("sigint") is not None:
            # INTERRUPTED first leg (strengthening st3weak, seed C11-I): SIGINT raised by the VERIF_POINT hook at a point inside the
            # main loop; the file the program leaves is then continued from its last record (whatever step tag it carries) and
            # compared with the uninterrupted run over that tag + n2 steps.  The point is fixed by its position in the list of
            # loop points of an uninterrupted trace of the same leg (replay: the recorded index).
            sg = t["sigint"]
            if sg.get("at") is None:
                tr = os.path.join(wd, "trace.txt")
                rc, so, se = hc.run_inovesa(tg, c1.args(os.path.join(wd, "trace.h5"), wd), timeout=300, env_extra={"INOVESA_VERIF_TRACE": tr})
                labels = open(tr).read().split() if os.path.exists(tr) else []
                first = next((i for i, l in enumerate(labels) if l.startswith("loop:")), None)
                cands = [i for i, l in enumerate(labels) if first is not None and i >= first and (l.startswith("loop:") or l.startswith("out:"))]
                if rc != 0 or not cands:
                    dis.append(dict(case=case, detail="no trace of loop points from the VERIF_POINT hook (rc=%s, %d labels)" % (rc, len(labels)),
                                    sig=dict(kind="restart", stage="correspondence", what="no-trace")))
                    return
                i = cands[min(len(cands) - 1, int(sg["frac"] * len(cands)))]
                sg = dict(sg, at=i, label=labels[i], loop_point="%d of %d" % (cands.index(i), len(cands)))
                case["sigint"] = t["sigint"] = sg
            env1 = {"INOVESA_VERIF_SIGINT_AT": str(sg["at"])}
            intr = " [first leg interrupted by SIGINT at executed point #%d (%s)]" % (sg["at"], sg.get("label", "?"))
        rc, so, se = hc.run_inovesa(tg, c1.args(f1, wd), timeout=300, env_extra=env1)
        if rc != 0 or not os.path.exists(f1):
            ctx.violation("impl-oracle", "inovesa failed (rc=%s) on %s%s" % (rc, os.path.basename(f1), intr), case=case,
                          observed=(so + se)[-500:], sig=dict(kind="restart", clause="run"))
            return
        if t.get("sigint") is not None:
            h1 = hc.h5cat(tg, f1, only=["/PhaseSpace"])
            axi = h1.values("/PhaseSpace/axis0") if not h1.error else []
            if not axi:
                ctx.violation("impl-oracle", "the file of an interrupted run holds no phase space to continue from" + intr, case=case,
                              observed=(so + se)[-300:], sig=dict(kind="restart", clause="run"))
                return
            ks = int(round(axi[-1] * steps))
            if hc.f32(ks / float(steps)) != axi[-1]:
                dis.append(dict(case=case, detail="last time tag of the interrupted file is not a whole number of steps: %r" % axi[-1],
                                sig=dict(kind="restart", stage="correspondence", what="interrupted-tag")))
                return
            t = dict(t, kstart=ks, j=None)
            case["kstart"] = ks
            ctx.count("interrupted-first-leg:stopped-at-step-%s" % ("n1" if ks >= t["n1"] else "<n1"))
        c2 = hc.Cfg(rot=rot_of(t["n2"], steps), start=(f1, t["j"]), **kw)
        c3 = hc.Cfg(rot=rot_of(t["kstart"] + t["n2"], steps), **kw)
        for c, f in ((c2, f2), (c3, f3)):
            rc, so, se = hc.run_inovesa(tg, c.args(f, wd), timeout=300)
            if rc != 0 or not os.path.exists(f):
                ctx.violation("impl-oracle", "inovesa failed (rc=%s) on %s" % (rc, os.path.basename(f)), case=case,
                              observed=(so + se)[-500:], sig=dict(kind="restart", clause="run"))
                return
        h1, h2, h3 = (hc.h5cat(tg, f, only=["/PhaseSpace"]) for f in (f1, f2, f3))
        r1, dm1 = ps_records(h1, n)
        r2, _ = ps_records(h2, n)
        r3, _ = ps_records(h3, n)
        ax1 = h1.values("/PhaseSpace/axis0")
        # ---- which record: the extracted read model on leg 1's dataset (payload = hex-float tokens)
        toks = h1.data["/PhaseSpace/data"]
        step = -1 if t["j"] is None else t["j"]
        mt = "read %s %s %s 4 %s %d %s\n" % (t["cid"], "ps", hc.zt(step), " ".join(hc.zt(x) for x in dm1), len(toks), " ".join(toks))
        m = hc.run_model(mt)[t["cid"]]
        if m["refused"] != ["0"]:
            dis.append(dict(case=case, detail="model refuses a start file the program accepted", sig=dict(kind="restart", stage="correspondence")))
            return
        chosen = [float.fromhex(x) for x in m["grid"]]
        jj = (len(r1) + step) % len(r1)
        if chosen != r1[jj] or hc.pz(m["n"][0]) != n:
            dis.append(dict(case=case, detail="model read_ps does not return record (len+step) mod len", sig=dict(kind="restart", stage="correspondence")))
        if hc.f32(t["kstart"] / float(steps)) != ax1[jj]:
            dis.append(dict(case=case, detail="chosen record is not at the expected step tag", sig=dict(kind="restart", stage="correspondence")))
        first, final2, final3 = r2[0], r2[-1], r3[-1]
        mx = max(abs(x) for x in chosen) or 1.0
        r = kw["renorm"]
        sig = dict(kind="restart", renorm=("neg" if r < 0 else "zero" if r == 0 else "pos"), imp=t["imp"])
        if t.get("sigint") is not None:
            sig["interrupted_first_leg"] = True
        # ---- start state (C11_read_back_exact + C11_start_state)
        if r < 0:
            if first != chosen:
                nd = sum(1 for a, b in zip(first, chosen) if a != b)
                ctx.violation("impl-oracle", "the first phase space of the continued run is not the stored record (%d of %d cells differ)" % (nd, len(chosen)),
                              case=case, observed=first[:6], expected=chosen[:6], sig=dict(sig, clause="loaded"))
        elif r == 0:
            # exactly one scaling by a binary32 factor next to 1 (the stale integral of the default Gaussian)
            ok = False
            for k in range(-6, 7):
                cfac = next32(1.0, k) if k >= 0 else next32(1.0, 0) - (-k) * 2.0 ** -24
                cfac = hc.f32(cfac)
                if all(hc.f32(a * cfac) == b for a, b in zip(chosen, first)):
                    ok = True
                    ctx.count("stale-factor:%+d" % k)
                    break
            if not ok:
                bad = max(abs(a - b) for a, b in zip(chosen, first))
                ctx.violation("impl-oracle", "the first phase space of the continued run is not the stored record times one factor within 6 ulp of 1",
                              case=case, observed=bad, expected="<= %g" % (8 * EPS * mx), sig=dict(sig, clause="loaded"))
        else:
            s = sum(a * b for a, b in zip(chosen, first)) / sum(a * a for a in chosen)
            bad = max(abs(a * s - b) for a, b in zip(chosen, first))
            ctx.count("pos-scale-ulp:%d" % int(round(abs(s - 1) / (2 * EPS))))
            # two rescales (the stale one and the loop head's), each by share/measured-share of a grid that was normalised
            # when it was stored: C11_fresh_constructor_charge_is_share / C09_normalize_restores_share make both factors 1
            # in exact arithmetic; in binary32 each is within a few ulp of 1 (observed: total <= 4 ulp; bound 12 ulp)
            if abs(s - 1) > 12 * 2 * EPS or bad > 8 * EPS * mx:
                ctx.violation("impl-oracle", "the first phase space of the continued run is not the stored record up to the two normalisations",
                              case=case, observed=dict(scale=s, dev=bad), expected="scale 1 +- 12 ulp (%g), dev <= %g" % (24 * EPS, 8 * EPS * mx),
                              sig=dict(sig, clause="loaded"))
        # ---- continuation (C11_continuation_equiv / _renorm0)
        if r < 0:
            if final2 != final3:
                nd = sum(1 for a, b in zip(final2, final3) if a != b)
                ctx.violation("impl-oracle", "continued run and uninterrupted run end in different phase spaces although RenormalizeCharge < 0 (%d cells differ)%s" % (nd, intr),
                              case=case, observed=final2[:6], expected=final3[:6], sig=dict(sig, clause="continuation"))
        else:
            # rounding bound: one relative perturbation of <= 8 ulp at the joint, carried through n2 steps of
            # four interpolating maps (each 4-point, sum |w| <= 1.5) whose own roundings differ between the runs
            tol = (16 + 64 * t["n2"]) * EPS * max(max(abs(x) for x in final3), mx)
            bad = max(abs(a - b) for a, b in zip(final2, final3))
            if bad > tol:
                ctx.violation("impl-oracle", "continued run and uninterrupted run differ beyond rounding" + intr, case=case,
                              observed=bad, expected="<= %g" % tol, sig=dict(sig, clause="continuation"))
        ax2, ax3 = h2.values("/PhaseSpace/axis0"), h3.values("/PhaseSpace/axis0")
        if ax2[-1] != hc.f32(t["n2"] / float(steps)) or ax3[-1] != hc.f32((t["kstart"] + t["n2"]) / float(steps)):
            dis.append(dict(case=case, detail="final tags", sig=dict(kind="restart", stage="correspondence")))
        ctx.case_done(t["cid"], chosen != r1[0] or t["kstart"] == 0)
        ctx.count("renorm:" + sig["renorm"])
        ctx.count("imp:" + t["imp"])
        ctx.count("start:" + ("default" if t["j"] is None else "last" if jj == len(r1) - 1 else "inner"))
        ctx.sample(dict(n=n, steps=steps, n1=t["n1"], n2=t["n2"], start_step=t["j"], start_tag=t["kstart"], renorm=r, imp=t["imp"]))
    finally:
        hc.cleanup(wd)


def refusals(ctx, tg, dis):
    """missing / truncated / text / two-bunch start files: refused with a message, nothing simulated"""
    wd = hc.workdir()
    try:
        good = os.path.join(wd, "good.h5")
        two = os.path.join(wd, "two.h5")
        base = dict(n=16, steps=8, rot="0.5", outstep=2, save=1, gap=0, padding=2)
        rc, so, se = hc.run_inovesa(tg, hc.Cfg(currents=[3e-4], **base).args(good, wd))
        rc2, so2, se2 = hc.run_inovesa(tg, hc.Cfg(currents=[3e-4, 1e-4], **base).args(two, wd))
        if not (os.path.exists(good) and os.path.exists(two)):
            raise RuntimeError("could not produce the start files: " + (so + se + so2 + se2)[-300:])
        trunc = os.path.join(wd, "trunc.h5")
        with open(good, "rb") as f:
            blob = f.read()
        with open(trunc, "wb") as f:
            f.write(blob[:max(600, len(blob) // 3)])
        text = os.path.join(wd, "text.h5")
        with open(text, "w") as f:
            f.write("0.1 0.2\n0.3 0.4\n")
        nops = os.path.join(wd, "empty.hdf5")
        with open(nops, "wb") as f:
            f.write(blob[:0])
        h2 = hc.h5cat(tg, two, only=["/PhaseSpace/data"])
        kinds = [("missing", os.path.join(wd, "nothere.h5"), "missing", None),
                 ("truncated", trunc, "nothdf", None),
                 ("text", text, "nothdf", None),
                 ("empty", nops, "nothdf", None),
                 ("two-bunch", two, "ps", h2)]
        mt = ""
        for name, path, mk, hh in kinds:
            if hh is None:
                mt += "read %s %s -1\n" % (name, mk)
            else:
                dm = hh.dims("/PhaseSpace/data")
                toks = hh.data["/PhaseSpace/data"]
                mt += "read %s ps -1 4 %s %d %s\n" % (name, " ".join(hc.zt(x) for x in dm), len(toks), " ".join(toks))
        hg = hc.h5cat(tg, good, only=["/PhaseSpace/data"])
        mt += "read good ps -1 4 %s %d %s\n" % (" ".join(hc.zt(x) for x in hg.dims("/PhaseSpace/data")), len(hg.data["/PhaseSpace/data"]),
                                               " ".join(hg.data["/PhaseSpace/data"]))
        m = hc.run_model(mt)
        for name, path, mk, hh in kinds + [("good", good, "ps", hg)]:
            out = os.path.join(wd, "out_%s.h5" % name)
            rc, so, se = hc.run_inovesa(tg, hc.Cfg(currents=[3e-4], start=(path, None), **base).args(out, wd), timeout=120)
            txt = so + se
            started = "Starting the simulation" in txt
            refused_impl = not started
            refused_model = m[name]["refused"] == ["1"]
            case = dict(kind="refusal", file=name)
            if refused_impl != refused_model:
                dis.append(dict(case=case, detail=dict(impl_refused=refused_impl, model_refused=refused_model, output=txt[-300:]),
                                sig=dict(kind="restart", stage="correspondence", file=name)))
            if name != "good":
                if started or rc == 124:
                    ctx.violation("impl-oracle", "unusable start file (%s) was not refused" % name, case=case, observed=txt[-400:],
                                  sig=dict(kind="restart", clause="refusal", file=name))
                elif "rror" not in txt:
                    ctx.violation("impl-oracle", "unusable start file (%s) refused without a message" % name, case=case, observed=txt[-400:],
                                  sig=dict(kind="restart", clause="refusal-message", file=name))
                elif os.path.exists(out):
                    ctx.violation("impl-oracle", "a results file was written although the start file (%s) was refused" % name, case=case,
                                  sig=dict(kind="restart", clause="refusal", file=name))
            elif not started:
                ctx.violation("impl-oracle", "a valid start file was refused", case=case, observed=txt[-400:],
                              sig=dict(kind="restart", clause="refusal", file=name))
            ctx.case_done("refusal:" + name, name != "good")
            ctx.count("refusal:" + name)
    finally:
        hc.cleanup(wd)


def gridsize_refusal(ctx, tg, dis):
    """(moments family, second wave) a valid single-bunch results file whose grid size differs from GridSize cannot be
    used as a start: main() must quit with a message before the simulation starts (repo fix 71d4ab2; the test in
    main() is regenerated as gen_main_refuses_gridsize, theorem C11_source_gridsize_refused)"""
    import re
    wd = hc.workdir()
    try:
        src = os.path.join(wd, "g16.h5")
        base = dict(steps=8, rot="0.5", outstep=2, save=1, gap=0, padding=2)
        rc, so, se = hc.run_inovesa(tg, hc.Cfg(n=16, currents=[3e-4], **base).args(src, wd))
        if not os.path.exists(src):
            raise RuntimeError("could not produce the start file: " + (so + se)[-300:])
        for other in (24, 12):
            out = os.path.join(wd, "out_g%d.h5" % other)
            rc, so, se = hc.run_inovesa(tg, hc.Cfg(n=other, currents=[3e-4], start=(src, None), **base).args(out, wd), timeout=120)
            txt = so + se
            case = dict(kind="refusal", file="gridsize-%d-into-%d" % (16, other))
            if "Starting the simulation" in txt or rc == 124:
                ctx.violation("impl-oracle", "a start file of another grid size (16 into GridSize %d) was not refused" % other, case=case,
                              observed=txt[-400:], sig=dict(kind="restart", clause="refusal", file="gridsize"))
            elif not re.search(r"rror|size|differ|cannot|refus|quit", txt, flags=re.I):
                ctx.violation("impl-oracle", "a start file of another grid size (16 into GridSize %d) was refused without a message" % other,
                              case=case, observed=txt[-400:], sig=dict(kind="restart", clause="refusal-message", file="gridsize"))
            elif os.path.exists(out):
                ctx.violation("impl-oracle", "a results file was written although the start file (other grid size) was refused", case=case,
                              sig=dict(kind="restart", clause="refusal", file="gridsize"))
            ctx.case_done("refusal:gridsize-%d" % other, True)
            ctx.count("refusal:gridsize")
    finally:
        hc.cleanup(wd)


def model_cases(ctx, dis):
    """use_step against its specification on generated (len, step), incl. the boundaries"""
    rng = ctx.rng
    cases = [(1, -1), (1, 0), (5, -1), (5, 4), (5, -5), (5, 0), (7, -7), (3, 2)]
    cases += [(l, s) for l in [rng.randint(1, 300) for _ in range(60)] for s in [rng.randint(-l, l - 1)]]
    mt = "".join("usestep u%d %s %s\n" % (i, hc.zt(l), hc.zt(s)) for i, (l, s) in enumerate(cases))
    m = hc.run_model(mt)
    for i, (l, s) in enumerate(cases):
        if hc.pz(m["u%d" % i]["r"][0]) != (l + s) % l:
            dis.append(dict(case=dict(kind="usestep", len=l, step=s), detail=m["u%d" % i], sig=dict(kind="restart", stage="correspondence")))
        ctx.evaluations += 1


def run(ctx):
    ctx.rule = ("triples (leg 1 with SavePhaseSpace=1, leg 2 from a chosen record incl. default/negative/inner steps, single run): n 16..48, "
                "StepsPerTs 8/16/32, random split points, no impedance / resistive wall / parallel-plates CSR at <= 0.5 mA, "
                "RenormalizeCharge -1 / 0 / a divisor of the start tag; plus missing, truncated, text, empty and two-bunch start files. "
                "Non-trivial: the chosen record differs from the initial distribution.")
    coq = vp_coq.full_check("C11", ctx, fams=("h5",))
    tg = ctx.build(want_binary=True, harness=("h5cat",))
    dis = []
    model_cases(ctx, dis)
    refusals(ctx, tg, dis)
    gridsize_refusal(ctx, tg, dis)
    nt = 40 if ctx.quick() else 400
    for i in range(nt):
        run_triple(ctx, tg, gen_triple(ctx.rng, i, ctx.quick()), dis)
    import c11_splits
    c11_splits.model_pairs(ctx, dis)             # mirror of main()'s laststep line against the extracted Records.laststep
    c11_splits.run_splits(ctx, tg, dis)          # split points typed as decimal numbers, legs of a fraction of a step
    for t in small_extent_triples(ctx.seed, ctx.quick()):
        run_triple(ctx, tg, t, dis)
        ctx.count("extent:%s" % t["extent"])
    for t in interrupted_triples(ctx.seed, ctx.quick()):
        run_triple(ctx, tg, t, dis)
    ctx.extra["correspondence_disagreements"] = len(dis)
    ctx.assumptions += ["physics kernels are abstract in the continuation theorems; bit-equality for RenormalizeCharge < 0 and the rounding bound otherwise are checked on the binary",
                        "RenormalizeCharge > 0 not dividing the start tag: the model refutes equality (C11_continuation_nondividing_refuted); not compared on the implementation",
                        "a start file whose grid size differs from GridSize is accepted by the reader and refused by main() (C11_source_gridsize_refused; checked on the binary by gridsize_refusal)"]
    ctx.trusted.add("harness/h5cat.cpp, lib/h5_cases.py")
    conclude(ctx, coq, dis)


def replay(ctx, rp):
    coq = vp_coq.full_check("C11", ctx, fams=("h5",))
    tg = ctx.build(want_binary=True, harness=("h5cat",))
    dis = []
    case = rp.get("case") or {}
    if case.get("kind") == "laststep-pair":
        import c11_splits
        s_, r_ = float.fromhex(case["steps"]), float.fromhex(case["rotations"])
        c11_splits.gen_pairs = lambda rng, n: [(case.get("sub", "replay"), s_, r_, None)]
        c11_splits.model_pairs(ctx, dis, n=1)
    elif case.get("kind") == "decimal-split":
        import c11_splits
        c11_splits.FIXED[:] = [(case["N"], case["T1"], case["T2"])]
        c11_splits.cases = lambda rng, quick: list(c11_splits.FIXED)
        c11_splits.run_splits(ctx, tg, dis)
    elif case.get("kind") == "refusal" and str(case.get("file", "")).startswith("gridsize"):
        gridsize_refusal(ctx, tg, dis)
    elif case.get("kind") == "refusal" or not case.get("kw"):
        refusals(ctx, tg, dis)
    else:
        run_triple(ctx, tg, case, dis)
    conclude(ctx, coq, dis)
