"""C18 - wake and CSR spectrum depend on the current profile only, not on past calls."""
import os, re
from fractions import Fraction
from vp_common import *
import vp_coq, hist_cases as hc


def sig_of(c, k, diff):
    """signature of a history-dependence violation: which call, after which kinds of calls, in
    which bucket layout - specific enough that a different cause gets a different signature"""
    kinds = set(o[0] for o in c.ops[:k])
    return dict(kind="hist", clause="history-independence", op=c.ops[k][0],
                after_csr="C" in kinds, after_pad_or_wake=bool(kinds & {"W", "P"}),
                first_bucket_zero=c.first_offset() == 0, multibunch=c.nb > 1,
                buffer=diff.get("buffer") if diff else None)


def shrink(ctx, tg, c, k):
    """shortest history found by dropping earlier calls while the last call still differs from fresh"""
    ops = c.ops[:k + 1]
    changed = True
    while changed and len(ops) > 1:
        changed = False
        for j in range(len(ops) - 1):
            t = ops[:j] + ops[j + 1:]
            r = hc.run_impl(tg, [c.with_ops(t, "s")])["s"]
            if not r[-1]["same"]:
                ops, changed = t, True
                break
    return c.with_ops(ops)


def evaluate(ctx, tg, cases, impl, model):
    dis = []
    for c in cases:
        i, m = impl[c.cid], model[c.cid]
        d, bprobe = hc.compare(c, i, m)
        if d:
            dis.append(dict(case=c.replay(), detail=[dict(what=w, **x) for w, x in d[:3]],
                            sig=dict(kind="hist", stage="correspondence", what=d[0][0])))
        if bprobe:
            ctx.extra.setdefault("hypB_strong_probe_failures", []).append(dict(case=c.describe(), ops=bprobe[:3]))
            ctx.count("hypB-strong-probe-failed")
        reported = False
        binv = False
        for k, r in enumerate(i):
            # property oracle on the implementation: result after the history == fresh object, bit for bit
            if not r["same"] and not reported:
                reported = True
                s = shrink(ctx, tg, c, k)
                rs = hc.run_impl(tg, [s])[s.cid][-1]
                ctx.violation("impl-oracle", "%s after the history %s differs from the same call on a freshly constructed object (%s[%s])"
                              % ({"W": "wakePotential()", "P": "padBunchProfiles()", "C": "updateCSR()"}[s.ops[-1][0]],
                                 "".join(o[0] for o in s.ops[:-1]) or "<empty>", rs.get("diff", {}).get("buffer"), rs.get("diff", {}).get("index")),
                              case=s.replay(), observed=rs.get("diff"), expected="bit-identical to the fresh object",
                              sig=sig_of(s, len(s.ops) - 1, rs.get("diff")))
            # monitor of the model's invariant / hypothesis (B) on the object with the history: cells the
            # model says are never (re)written must still be zero.  A non-zero cell means the model no longer
            # mirrors the code (or FFTW violates (B)); it is a failing input only together with a differing
            # result, which the oracle above reports - otherwise conclude() reports it without one.
            B = r["B"]
            if (B["re"] != 0 or B["im"] != 0 or not B["wl_upper_zero"] or not B["ff_upper_zero"]) and not binv:
                binv = True
                dis.append(dict(case=c.with_ops(c.ops[:k + 1]).replay(),
                                detail=[dict(what="invariant: _wakelosses[N/2..] / _formfactor[N/2+1..] zero (hypothesis (B))", op=k, kind=r["kind"],
                                             re=str(B["re"]), im=str(B["im"]), wl_upper_zero=B["wl_upper_zero"], ff_upper_zero=B["ff_upper_zero"])],
                                sig=dict(kind="hist", stage="correspondence", what="hypB-invariant", N_kind=hc.ncat(c.N))))
                ctx.count("hypB-invariant-broken")
                if not reported:
                    # search: does a further wakePotential() call with the same profile now differ from fresh?
                    ext = c.with_ops(c.ops[:k + 1] + [("W", 0.0, c.ops[k][2])], "b")
                    re_ = hc.run_impl(tg, [ext])["b"][-1]
                    if not re_["same"]:
                        reported = True
                        s = shrink(ctx, tg, ext, len(ext.ops) - 1)
                        rs = hc.run_impl(tg, [s])[s.cid][-1]
                        ctx.violation("impl-oracle", "wakePotential() after the history %s differs from the same call on a freshly constructed object: "
                                      "a cell of the loss spectrum that is never rewritten is no longer zero (hypothesis (B))" % "".join(o[0] for o in s.ops[:-1]),
                                      case=s.replay(), observed=rs.get("diff"), expected="bit-identical to the fresh object",
                                      sig=dict(sig_of(s, len(s.ops) - 1, rs.get("diff")), clause="hypB"))
        kinds = set(o[0] for o in c.ops)
        distinct = len(set(tuple(o[2]) for o in c.ops)) > 1
        ctx.case_done(c.cid, len(c.ops) >= 2 and distinct and "C" in kinds and (kinds & {"W", "P"}) and
                      (c.first_offset() != 0 or c.nb > 1))
        ctx.evaluations += len(c.ops) - 1
    return dis


OPNAME = {"W": "wakePotential()", "P": "padBunchProfiles()", "C": "updateCSR()", "G": "getter"}


def shrink2(tg, c, k, bad):
    """drop earlier operations while operation k (moving) still shows the defect `bad(result)`"""
    ops = c.ops[:k + 1]
    changed = True
    while changed and len(ops) > 1:
        changed = False
        for j in range(len(ops) - 1):
            t = ops[:j] + ops[j + 1:]
            r = hc.run_impl2(tg, [c.with_ops(t, "s")])["s"]
            if bad(r[-1]):
                ops, changed = t, True
                break
    return c.with_ops(ops)


def evaluate2(ctx, tg, cases, impl, model):
    """two field objects in one process + getters: oracles on the implementation, then correspondence"""
    dis = []
    for c in cases:
        i, m = impl[c.cid], model[c.cid]
        d = hc.compare2(c, i, m)
        if d:
            dis.append(dict(case=c.replay(), detail=[dict(what=w, **x) for w, x in d[:3]],
                            sig=dict(kind="hist2", stage="correspondence", what=d[0][0])))
        reported = False
        for k, r in enumerate(i):
            if reported:
                break
            what = None
            if not r["same"]:
                what, bad = "same", (lambda q: not q["same"])
            elif r.get("other") is False:
                what, bad = "other", (lambda q: q.get("other") is False)
            elif r["kind"] == "G" and r.get("self") is False:
                what, bad = "self", (lambda q: q.get("self") is False)
            if what is None:
                continue
            reported = True
            s = shrink2(tg, c, k, bad)
            rs = hc.run_impl2(tg, [s])[s.cid][-1]
            last = s.ops[-1]
            hist = " ".join("%d:%s" % (o[0], o[1]) for o in s.ops[:-1]) or "<empty>"
            if what == "same":
                msg = ("%s on object %d after the interleaved history [%s] on two field objects differs from a freshly constructed object (%s[%s])"
                       % (OPNAME[last[1]] if last[1] != "G" else hc.GETTERS[last[2]] + "()", last[0], hist,
                          rs.get("diff", {}).get("buffer"), rs.get("diff", {}).get("index")))
                clause = "history-independence"
            elif what == "other":
                msg = "%s on object %d changed a buffer of the OTHER field object (history [%s])" % (OPNAME[last[1]], last[0], hist)
                clause = "other-object"
            else:
                msg = "the getter %s() changed a buffer of its object (history [%s])" % (hc.GETTERS[last[2]], hist)
                clause = "getter-pure"
            ctx.violation("impl-oracle", msg, case=s.replay(), observed=rs.get("diff") or dict(other_untouched=rs.get("other"), self_unchanged=rs.get("self")),
                          expected="bit-identical to the fresh object; other object untouched; getters change nothing",
                          sig=dict(kind="hist2", clause=clause, op=last[1], same_length=c.objs[0]["N"] == c.objs[1]["N"],
                                   buffer=(rs.get("diff") or {}).get("buffer")))
        objs_used = set(o[0] for o in c.ops)
        calls = [o for o in c.ops if o[1] != "G"]
        distinct = len(set(tuple(o[3]) for o in calls)) > 1
        ctx.case_done(c.cid, len(objs_used) == 2 and len(calls) >= 2 and distinct)
        ctx.evaluations += len(c.ops) - 1
    return dis


def main_uses_separate_objects():
    """note only: does src/main.cpp ask one field object for both kinds of result?"""
    try:
        txt = open(os.path.join(REPO, "src", "main.cpp")).read()
    except OSError:
        return None
    csr = set(re.findall(r"(\w+)\s*(?:\.|->)\s*updateCSR", txt))
    wake = set(re.findall(r"(\w+)\s*(?:\.|->)\s*(?:wakePotential|padBunchProfiles)", txt))
    return dict(updateCSR_on=sorted(csr), wake_or_pad_on=sorted(wake), shared=sorted(csr & wake))


def corpus():
    """the computed witnesses of Props/Properties_C18.v (pinned-tree refutations), run first"""
    z = [(1.0 + i / 8.0, -0.5 + i / 16.0) for i in range(8)]
    p, q = [1.0, 2.0], [1.0, 2.0, 3.0, 4.0]
    return [hc.HistCase("w_ghost", 2, 1, 8, 3, [1], z, [("C", 0.0, p), ("W", 0.0, p)], "Coq witness E_ghost"),
            hc.HistCase("w_stale", 2, 2, 8, 3, [0, 1], z, [("P", 0.0, q), ("C", 0.0, q)], "Coq witness E_stale"),
            hc.HistCase("w_twice", 2, 1, 8, 3, [1], z, [("W", 0.0, p), ("W", 0.0, p)], "Coq witness E_clob (hypothesis B)")]


def run_cases(ctx, cases, coq, cases2=()):
    tg = ctx.build(harness=("impl_hist",))
    impl = hc.run_impl(tg, cases) if cases else {}
    model = hc.run_model(cases, fixed=True) if cases else {}
    dis = evaluate(ctx, tg, cases, impl, model)
    if cases2:
        impl2 = hc.run_impl2(tg, cases2)
        model2 = hc.run_model2(cases2)
        dis += evaluate2(ctx, tg, cases2, impl2, model2)
    if dis:
        # diagnostic only: does the tree behave like the pinned version of the model (no clearing)?
        pinned = hc.run_model(cases, fixed=False)
        nd = sum(1 for c in cases if hc.compare(c, impl[c.cid], pinned[c.cid])[0])
        ctx.extra["disagreements_with_pinned_variant_of_the_model"] = nd
        ctx.notes.append("the working tree %s the pinned (rz = false) variant of the model on these cases" %
                         ("corresponds to" if nd == 0 else "does not correspond to"))
    return dis


def run(ctx, only=None):
    ctx.rule = ("random histories of wakePotential/padBunchProfiles/updateCSR (length 1..12, thorough ..24) with a new or repeated profile per call on ONE "
                "ElectricField (nb 1..3, buckets in any order, first bucket at offset 0 or not, overlapping or disjoint, spacing 0, N powers of two / "
                "composite / prime, nx 2..10); every call compared bit for bit with the same call on a freshly constructed object (same process, same FFTW "
                "wisdom), padded buffer compared exactly with the model, written cells of all seven buffers (probe object, two poison patterns) compared with "
                "the model's proved footprints, _wakelosses[N/2..] and _formfactor[N/2+1..] monitored for zero. Every tenth case ends CSR;Wake with a non-zero "
                "first offset, every tenth Pad|Wake;CSR with nb>1. Half of the impedances have EXACT zeros (zero from an index on = short impedance file, sparse zeros, "
                "zero real or imaginary parts, Z(0)=0), those cases mostly as wake histories with a new profile per call. Second wave: 120 (thorough 800) "
                "interleaved histories on TWO field objects in one process on the same PhaseSpace (same or different transform length; object 1 in half of "
                "the cases with spacing 0 and built without the wake transform, as main() builds its radiation field), with getter calls "
                "(getWakePotentials, getPaddedWakePotential, getPaddedBunchProfiles, getCSRSpectrum, getCSRPower) in between: every call compared with a fresh "
                "object, every operation must leave all buffers of the other object bit-identical, a getter must return the buffer the model names and change nothing. "
                "Every fifth single-object case (N <= 64) is also run through the programs generated from the current source (Gen_EField.v): all seven buffers "
                "must equal the hand model's. Non-trivial: >=2 calls, distinct profiles, both CSR and wake/pad calls, first offset != 0 or nb>1; "
                "two objects: calls on both, >= 2 distinct profiles.")
    coq = vp_coq.full_check("C18", ctx, fams=("hist",))
    cases2 = []
    if only is not None:
        cases = [c for c in only if isinstance(c, hc.HistCase)]
        cases2 = [c for c in only if isinstance(c, hc.Hist2Case)]
    elif ctx.quick():
        cases2 = hc.gen_cases2(ctx, 120, hc.POW2 + hc.COMPOSITE + hc.PRIME, 14)
        # fixed pool of transform lengths + a few lengths in 6..160 that change with the seed (monitor of (B))
        extra = sorted(ctx.rng.sample(range(6, 161), 6))
        cases = corpus() + hc.gen_cases(ctx, 500, hc.POW2 + hc.COMPOSITE + hc.PRIME, 12)
        for N in extra:
            cases += hc.gen_cases(ctx, 3, [N], 6, prefix="x%d_" % N)
    else:
        cases2 = hc.gen_cases2(ctx, 800, hc.POW2 + hc.COMPOSITE + hc.PRIME + hc.POW2_T + hc.COMPOSITE_T + hc.PRIME_T, 20)
        cases = corpus() + hc.gen_cases(ctx, 2500, hc.POW2 + hc.COMPOSITE + hc.PRIME, 12) + \
            hc.gen_cases(ctx, 300, hc.POW2_T + hc.COMPOSITE_T + hc.PRIME_T, 24, prefix="t")
        for N in range(6, 201):          # every transform length 6..200: monitor of (B), clobbering
            cases += hc.gen_cases(ctx, 2, [N], 5, prefix="x%d_" % N)
    ctx.extra["transform_lengths"] = sorted(set(c.N for c in cases))
    dis = run_cases(ctx, cases, coq, cases2)
    if cases:
        ctx.sample(cases[0].describe())
    if len(cases) > 3:
        ctx.sample(cases[3].describe())
    if cases2:
        ctx.sample(cases2[0].describe())
    ctx.extra["correspondence_disagreements"] = len(dis)
    ctx.extra["main_cpp_field_objects"] = main_uses_separate_objects()
    ctx.assumptions += [
        "hypothesis (B): the inverse (c2r) transform does not turn a zero cell floor(N/2) of _wakelosses into a non-zero one; monitored after every call "
        "on the object with the history (and, with arbitrary content in that cell, on the probe object: see hypB_strong_probe_failures)",
        "FFTW contract: a transform of logical size N touches only N reals / N/2+1 complex cells of its arrays; out-of-place r2c preserves its input "
        "(monitored through the footprints)",
        "the transforms, the impedance product, the scaling and the CSR cell formula are abstract in the model: the theorem holds whatever they compute "
        "(their arithmetic is C06/C07)",
        "both objects execute the same FFTW plans (same process, wisdom shared through XDG_DATA_HOME); processes that create their own wisdom may "
        "get different plans, hence different rounding - outside the model",
        "OpenCL/clFFT path not compiled, not modelled"]
    ctx.trusted.add("harness/impl_hist.cpp (private-member access, probe object with poison patterns), lib/hist_cases.py")
    conclude(ctx, coq, dis)


def replay(ctx, rp):
    case = rp.get("case")
    if case and case.get("kind") == "hist2":
        return run(ctx, only=[hc.Hist2Case.from_replay(case)])
    if not case or case.get("kind") != "hist":
        return run(ctx)
    run(ctx, only=[hc.HistCase.from_replay(case)])
