"""Generation, execution and comparison of `track` cases (SourceMap::applyTo / applyToAll of
every map of the main loop, HDF5File::appendTracks' lookup), blob-vs-particle cases and
stochastic ensembles for C15.  Every random choice comes from ctx.rng.

Comparison regime: the model (exact rationals) evaluates each map *from the implementation's
own state before that map* (the positions the implementation printed after the previous map), so
rounding never accumulates over a sequence and the discontinuities (floor/trunc of a coordinate)
are taken on identical inputs.  `exact` cases (dyadic inputs with few bits) must then agree bit
for bit; `tol` cases within K*2^-24*cond with K the number of roundings on the path."""
from fractions import Fraction
from vp_common import *
import vp_coq

U = Fraction(1, 2 ** 24)


class TrackCase:
    def __init__(self, cid, n, axes, parts, ops, stream, note=""):
        self.cid, self.n, self.axes, self.parts, self.ops = cid, n, axes, parts, ops
        self.stream, self.note = stream, note

    def impl_text(self):
        t = ["track %s %d %s %d %d" % (self.cid, self.n, " ".join(fhex(a) for a in self.axes), len(self.parts), len(self.ops))]
        t.append(" ".join("%s %s" % (fhex(x), fhex(y)) for x, y in self.parts))
        for o in self.ops:
            k = o["k"]
            if k == "kick":
                t.append("kick %s %d %s" % (o["dir"], o["it"], " ".join(fhex(v) for v in o["offs"])))
            elif k == "drift":
                t.append("drift %d %s %s" % (o["it"], fhex(o["slip"][0]), fhex(o["slip"][1])))
            elif k == "rf":
                t.append("rf %d %s" % (o["it"], fhex(o["angle"])))
            elif k == "ident":
                t.append("ident")
            elif k == "fp":
                t.append("fp %d %d %d %s %d" % (o["fptype"], o["fptrack"], o["dt"], fhex(o["e1"]), o.get("seed", 1)))
                if o["fptrack"] == 2:
                    t.append(" ".join(fhex(v) for v in o["data"]))
        return "\n".join(t) + "\n"

    def replay(self):
        ops = []
        for o in self.ops:
            d = dict(o)
            for key in ("offs", "data", "slip"):
                if key in d:
                    d[key] = [fhex(v) for v in d[key]]
            for key in ("e1", "angle"):
                if key in d:
                    d[key] = fhex(d[key])
            ops.append(d)
        return dict(kind="track", id=self.cid, n=self.n, axes=[fhex(a) for a in self.axes], stream=self.stream,
                    note=self.note, parts=[[fhex(x), fhex(y)] for x, y in self.parts], ops=ops)

    def describe(self):
        return dict(id=self.cid, n=self.n, stream=self.stream, note=self.note, particles=len(self.parts),
                    ops=[(o["k"] + (":" + o.get("dir", "") if o["k"] == "kick" else "") +
                          (":track%d:dt%d" % (o["fptrack"], o["dt"]) if o["k"] == "fp" else "")) for o in self.ops],
                    first_particle=[fhex(v) for v in self.parts[0]])


def case_from_replay(rp):
    ops = []
    for o in rp["ops"]:
        d = dict(o)
        for key in ("offs", "data", "slip"):
            if key in d:
                d[key] = [float.fromhex(v) for v in d[key]]
        for key in ("e1", "angle"):
            if key in d:
                d[key] = float.fromhex(d[key])
        ops.append(d)
    return TrackCase(rp["id"], rp["n"], [float.fromhex(a) for a in rp["axes"]],
                     [(float.fromhex(x), float.fromhex(y)) for x, y in rp["parts"]], ops, rp["stream"], rp.get("note", ""))


# ------------------------------------------------------------------------------------ generators

def _particles(rng, n, cnt, exact):
    ps = []
    for _ in range(cnt):
        c = []
        for _a in range(2):
            r = rng.random()
            if r < 0.2:
                v = float(rng.randint(0, n - 1))                       # cell centre
            elif r < 0.35:
                v = rng.randint(0, n - 2) + 0.5                        # cell edge
            elif r < 0.55:
                v = rng.choice([0.0, float(n - 1), 1.0, float(n - 2), 1 / 16.0, n - 1 - 1 / 16.0,
                                n - 2 + 15 / 16.0, 15 / 16.0])         # grid border
            elif exact or r < 0.75:
                v = rng.randint(0, (n - 1) * 16) / 16.0
            else:
                v = f32(rng.uniform(0, n - 1))
            c.append(v)
        ps.append((c[0], c[1]))
    return ps


def _kick_offsets(rng, n, exact):
    style = rng.random()
    offs = []
    scale = rng.choice([0.25, 1.0, 3.0, n / 2.0])
    for i in range(n):
        if style < 0.15:
            o = float(rng.choice([-1, 1]) * (n + rng.randint(0, 5)))   # beyond the grid
        elif exact:
            o = rng.randint(-int(scale * 64), int(scale * 64)) / 64.0
        else:
            o = f32(rng.uniform(-scale, scale))
        offs.append(o)
    if style > 0.8:                                                    # smooth field (a shear)
        a = rng.randint(-32, 32) / 64.0
        offs = [a * (i - (n - 1) / 2.0) if exact else f32(a * 1.01 * (i - (n - 1) / 2.0)) for i in range(n)]
    return offs


def _fp_op(rng, n, exact, fptrack=None):
    fptrack = rng.choice([0, 1, 1, 2, 2, 3, 3]) if fptrack is None else fptrack
    dt = rng.choice([3, 4])
    fptype = rng.choice([3, 3, 3, 1, 2, 0])
    if exact:
        e1 = rng.choice([1, 2, 3, 5, 8]) / 64.0
    else:
        e1 = f32(rng.choice([0.001, 0.01, 0.05, 0.2]) * rng.uniform(0.5, 1.5))
    o = dict(k="fp", fptype=fptype, fptrack=fptrack, dt=dt, e1=e1, seed=rng.randint(1, 2 ** 31 - 1))
    if fptrack == 2:
        style = rng.random()
        data = []
        zrows = set(rng.sample(range(n), rng.randint(1, max(1, n // 3)))) | {0, n - 1}
        tiny = [float.fromhex("0x1p-149"), float.fromhex("0x1p-140"), float.fromhex("0x1.8p-130"), 1e-42, 3e-39, 0.0]
        for x in range(n):
            for y in range(n):
                if 0.5 <= style < 0.62:
                    # rows of exact zeros (incl. the outermost ones) inside a positive grid: particles there see 0/0
                    v = 0.0 if (y in zrows or (y + 1) in zrows or (y - 1) in zrows) else float(rng.randint(1, 16))
                elif 0.62 <= style < 0.72:
                    # underflowed tails: subnormal and zero cells
                    v = rng.choice(tiny) if (y < n // 4 or y >= n - n // 4) else float(rng.randint(1, 16))
                elif style < 0.15:
                    v = 0.0                                            # empty grid: 0/0
                elif style < 0.3:
                    v = float(rng.choice([0, 0, 0, 1]))                # mostly empty: x/0 and 0/0
                elif style < 0.5:
                    v = float(rng.randint(-4, 4))                      # signed: charge can cancel
                elif exact:
                    v = float(rng.randint(1, 16))
                else:
                    g = -((x - (n - 1) / 2.0) ** 2 + (y - (n - 1) / 2.0) ** 2) / (2.0 * (n / 6.0) ** 2)
                    v = f32(2.718281828 ** g)
                data.append(v)
        o["data"] = data
        o["datastyle"] = ("zero" if style < 0.15 else "sparse" if style < 0.3 else "signed" if style < 0.5 else
                          "zero-rows" if style < 0.62 else "underflow" if style < 0.72 else "positive")
    return o


def _axes(rng, n, exact):
    """(qmin,qmax,pmin,pmax); exact: delta a power of two and the zero bin at (n-1)/2"""
    if exact:
        d = rng.choice([0.125, 0.25, 0.5])
        h = (n - 1) * d / 2
        return [-6.0, 6.0, -h, h]
    h = f32(rng.uniform(3, 8))
    if rng.random() < 0.3:
        sh = f32(rng.uniform(-1, 1))                                   # zero-energy bin off centre
        return [-6.0, 6.0, f32(-h + sh), f32(h + sh)]
    return [-6.0, 6.0, -h, h]


def gen_cases(ctx, count, prefix="t", long_every=4):
    rng = ctx.rng
    cases = []
    for i in range(count):
        exact = i % 2 == 0
        n = rng.choice(range(8, 33))
        axes = _axes(rng, n, exact)
        np_ = rng.randint(4, 12)
        parts = _particles(rng, n, np_, exact)
        ops = []
        if exact:
            shape = rng.choice(["k", "kk", "f", "kf", "i"])
            dirs = ["x", "y"]
            rng.shuffle(dirs)
            for ch in shape:
                if ch == "k":
                    ops.append(dict(k="kick", dir=dirs.pop(), it=rng.choice([1, 2, 3, 4]), offs=_kick_offsets(rng, n, True)))
                elif ch == "f":
                    ops.append(_fp_op(rng, n, True))
                else:
                    ops.append(dict(k="ident"))
            note = "exact:" + shape
        else:
            nops = rng.randint(1, 4) if i % long_every else rng.randint(12, 40)
            for _ in range(nops):
                r = rng.random()
                if r < 0.35:
                    ops.append(dict(k="kick", dir=rng.choice(["x", "y"]), it=rng.choice([1, 2, 3, 4]),
                                    offs=_kick_offsets(rng, n, rng.random() < 0.3)))
                elif r < 0.45:
                    ops.append(dict(k="drift", it=rng.choice([2, 3, 4]), slip=[f32(rng.uniform(-0.3, 0.3)), f32(rng.uniform(-0.01, 0.01))]))
                elif r < 0.55:
                    ops.append(dict(k="rf", it=rng.choice([2, 3, 4]), angle=f32(rng.uniform(-0.3, 0.3))))
                elif r < 0.6:
                    ops.append(dict(k="ident"))
                else:
                    ops.append(_fp_op(rng, n, False))
            note = "sequence:%d" % nops
        cases.append(TrackCase("%s%d" % (prefix, i), n, axes, parts, ops, "exact" if exact else "tol", note))
        ctx.count("track:" + ("exact" if exact else "tol"))
        for o in ops:
            ctx.count("op:" + o["k"] + (":track%d" % o["fptrack"] if o["k"] == "fp" else ""))
    return cases


# ------------------------------------------------------------------------------------ running

def _pairs(tokens):
    v = [parse_c(t) for t in tokens]
    return [(v[i], v[i + 1]) for i in range(0, len(v), 2)]


def run_impl(ctx, cases, harness="impl_track"):
    tg = ctx.build(harness=(harness,))
    rc, out, err = run_driver(tg[harness], "".join(c.impl_text() for c in cases))
    if rc != 0:
        raise RuntimeError("impl_track failed rc=%d: %s" % (rc, err[-2000:]))
    impl = parse_cases(out)
    res = {}
    for c in cases:
        r = impl.get(c.cid)
        if r is None:
            raise RuntimeError("case %s missing in impl output" % c.cid)
        offs = iter(r.get("offs", []))
        tabs = iter(r.get("tab", []))
        infos = iter(r.get("fpinfo", []))
        noises = iter(r.get("noise", []))
        per = []
        for k, o in enumerate(c.ops):
            if k >= len(r["pos"]):
                break          # the harness stopped the case after a particle left the grid
            d = dict(pos=_pairs(r["pos"][k]))
            if o["k"] in ("kick", "drift", "rf"):
                d["offs"] = [parse_c(t) for t in next(offs)]
            if o["k"] == "fp":
                t = next(tabs)
                d["tab"] = [(int(t[j]), parse_c(t[j + 1])) for j in range(0, len(t), 2)]
                yc, delta, pmin, zb0 = [parse_c(t) for t in next(infos)]
                d["yc"], d["delta"], d["pmin"], d["zb0"] = yc, delta, pmin, zb0
                if o["fptrack"] == 3:
                    d["noise"] = [parse_c(t) for t in next(noises)]
            per.append(d)
        res[c.cid] = dict(ops=per, idx=r["idx"][0])
    return res


def _finite(ps):
    return all(not isinstance(x, str) and not isinstance(y, str) for x, y in ps)


def model_text(c, r):
    """one single-map model case per map of the sequence, started from the implementation's state"""
    t = []
    keys = []
    n = c.n
    pre = [(Fraction(x), Fraction(y)) for x, y in c.parts]
    for k, o in enumerate(c.ops):
        if k >= len(r["ops"]):
            break
        d = r["ops"][k]
        if not _finite(pre):
            break
        if o["k"] == "fp" and any(isinstance(w, str) for _, w in d["tab"]):
            break
        hdr = "track %s.%d %d %d 1\n%s\n" % (c.cid, k, n, len(pre), " ".join("%s %s" % (qtok(x), qtok(y)) for x, y in pre))
        if o["k"] in ("kick", "drift", "rf"):
            dr = o.get("dir") or ("x" if o["k"] == "drift" else "y")
            body = "kick %s %s" % (dr, " ".join(qtok(v) for v in d["offs"]))
        elif o["k"] == "ident":
            body = "ident"
        else:
            ft = o["fptrack"]
            tab = " ".join("%d %s" % (i, qtok(w)) for i, w in d["tab"])
            noise = d["noise"] if ft == 3 else [Fraction(0)] * len(pre)
            body = "gfp %d %d %s %s %s %d %s%s %s" % (
                ft, o["dt"], qtok(Fraction(f32(o["e1"]))), qtok(d["zb0"]), qtok(d["yc"]), 1 if ft == 2 else 0, tab,
                ("\n" + " ".join(qtok(Fraction(v)) for v in o["data"])) if ft == 2 else "",
                " ".join(qtok(v) for v in noise))
        t.append(hdr + body + "\n")
        keys.append(k)
        pre = d["pos"]
    return "".join(t), keys


def fptab_text(c, r):
    t = []
    for k, o in enumerate(c.ops):
        if o["k"] != "fp" or k >= len(r["ops"]):
            continue
        d = r["ops"][k]
        t.append("fptab %s.%d.tab %d %d %d %s %s %s %s\n" % (c.cid, k, c.n, o["dt"], o["fptype"], qtok(Fraction(f32(o["e1"]))),
                                                       qtok(d["delta"]), qtok(d["yc"]), qtok(d["pmin"])))
    return "".join(t)


def run_model(ctx, cases, impl):
    text = []
    for c in cases:
        mt, _ = model_text(c, impl[c.cid])
        text.append(mt)
        text.append(fptab_text(c, impl[c.cid]))
    rc, out, err = run_driver(vp_coq.model_path("track"), "".join(text))
    if rc != 0:
        raise RuntimeError("model_track failed rc=%d: %s" % (rc, err[-2000:]))
    m = parse_cases(out)
    res = {}
    for key, v in m.items():
        d = {}
        if "pos" in v:
            q = [parse_q(t) for t in v["pos"][0]]
            d["pos"] = [(q[i], q[i + 1]) for i in range(0, len(q), 2)]
            ix = v["idx"][0]
            d["idx"] = [(ix[i] == "1", int(ix[i + 1], 16), int(ix[i + 2], 16)) for i in range(0, len(ix), 3)]
            if "gpos" in v:
                g = [t if t in ("nan", "inf", "-inf") else parse_q(t) for t in v["gpos"][0]]
                d["gpos"] = [(g[i], g[i + 1]) for i in range(0, len(g), 2)]
        if "tab" in v:
            t = v["tab"][0]
            d["tab"] = [(int(t[j], 16), parse_q(t[j + 1])) for j in range(0, len(t), 2)]
        res[key] = d
    return res


# ------------------------------------------------------------------------------------ comparison

def _op_tol(c, o, d, pre, k_part, exact):
    """tolerance for the moved coordinate of particle k_part under map o (Fractions)"""
    if exact and not (o["k"] == "fp" and (o["fptrack"] in (2, 3) or o["dt"] == 4)):
        return Fraction(0)
    x, y = pre
    n = c.n
    if o["k"] in ("kick", "drift", "rf"):
        m = max(abs(v) for v in d["offs"])
        return 8 * U * (abs(x) + abs(y) + m + 1)
    if o["k"] == "ident":
        return Fraction(0)
    ft = o["fptrack"]
    if ft == 0:
        return Fraction(0)
    if ft == 1:
        yi = min(int(y // 1), n)
        row = d["tab"][yi * o["dt"]:(yi + 1) * o["dt"]]
        cond = sum(abs(w) * abs(yi - i) for i, w in row)
        return 8 * U * (abs(y) + cond + 1)
    if ft == 2:
        xi = min(int(x // 1), n - 1)
        yi = min(int(y // 1), n - 1)
        row = d["tab"][yi * o["dt"]:(yi + 1) * o["dt"]]
        terms = [Fraction(o["data"][xi * n + i]) * w for i, w in row]
        if any(t != 0 and abs(t) < Fraction(1, 2 ** 120) for t in terms):
            return None          # products in or below the subnormal range: the float sum has no relative accuracy
        ch = sum(terms)
        mo = sum(t * (i - yi) for t, (i, _) in zip(terms, row))
        if ch == 0:
            return Fraction(0)
        condc = sum(abs(t) for t in terms)
        condm = sum(abs(t) * abs(i - yi) for t, (i, _) in zip(terms, row))
        # relative error of a quotient of two short sums, each K*u*cond
        rel = 8 * U * (condc / abs(ch) + (condm / abs(mo) if mo != 0 else 0) + 1)
        if rel >= Fraction(1, 4):
            return None          # ill-conditioned quotient (cancelling charge): not compared
        return 2 * rel * abs(mo / ch) + 8 * U * (abs(y) + 1)
    e1 = Fraction(f32(o["e1"]))
    return 8 * U * (abs(y) + abs(y - d["yc"]) * e1 + abs(d["noise"][k_part]) + 1)


def compare_case(c, r, model):
    """-> list of disagreement dicts"""
    dis = []
    exact = c.stream == "exact"
    pre = [(Fraction(x), Fraction(y)) for x, y in c.parts]
    _, keys = model_text(c, r)
    all_exact = exact
    for k in keys:
        o, d = c.ops[k], r["ops"][k]
        mres = model.get("%s.%d" % (c.cid, k))
        if mres is None or "pos" not in mres:
            dis.append(dict(what="model-missing", op=k))
            break
        gp = mres.get("gpos")
        if gp is None or len(gp) != len(mres["pos"]):
            dis.append(dict(what="generated-model-missing", op=k))
            break
        for pi, ((ix, iy), (mx, my)) in enumerate(zip(d["pos"], mres["pos"])):
            if isinstance(ix, str) or isinstance(iy, str):
                dis.append(dict(what="non-finite", op=k, opkind=o["k"], particle=pi, impl=[str(ix), str(iy)]))
                continue
            tol = _op_tol(c, o, d, pre[pi], pi, exact)
            gx, gy = gp[pi]
            if isinstance(gx, str) or isinstance(gy, str):
                # the model assembled from the generated code produces a non-finite coordinate
                dis.append(dict(what="generated-model-non-finite", op=k, opkind=o["k"], fptrack=o.get("fptrack"), particle=pi,
                                pre=[fhex(float(v)) for v in pre[pi]], generated=[str(gx), str(gy)]))
                continue
            if tol is not None and (abs(ix - gx) > tol or abs(iy - gy) > tol):
                dis.append(dict(what="position(generated)", op=k, opkind=o["k"], fptrack=o.get("fptrack"), particle=pi,
                                pre=[fhex(float(v)) for v in pre[pi]], impl=[fhex(float(ix)), fhex(float(iy))],
                                generated=[str(gx), str(gy)], tol=str(tol)))
                if len(dis) > 4:
                    return dis
            if tol is None or tol != 0:
                all_exact = False
            if tol is None:
                continue
            if abs(ix - mx) > tol or abs(iy - my) > tol:
                dis.append(dict(what="position", op=k, opkind=o["k"], fptrack=o.get("fptrack"), particle=pi,
                                pre=[fhex(float(v)) for v in pre[pi]], impl=[fhex(float(ix)), fhex(float(iy))],
                                model=[str(mx), str(my)], tol=str(tol)))
                if len(dis) > 4:
                    return dis
        # the constructor's table against the model's mirror of the constructor
        if o["k"] == "fp":
            mt = model.get("%s.%d.tab" % (c.cid, k), {}).get("tab")
            if mt is not None:
                for j, ((ii, iw), (mi, mw)) in enumerate(zip(d["tab"], mt)):
                    if isinstance(iw, str):
                        dis.append(dict(what="table-nonfinite", op=k, entry=j))
                        break
                    ttol = Fraction(0) if exact and o["dt"] == 3 else 16 * U * (abs(mw) + Fraction(f32(o["e1"])) * (c.n + 1 / d["delta"] ** 2))
                    if ii != mi or abs(iw - mw) > ttol:
                        dis.append(dict(what="fp-table", op=k, entry=j, impl=[ii, str(iw)], model=[mi, str(mw)], tol=str(ttol)))
                        break
        if not _finite(d["pos"]):
            break
        pre = d["pos"]
    # lookup of appendTracks on the final state (model evaluated on the model's final state of the
    # last map; compared only when every map of the case was compared bit for bit, so that both states are identical)
    if all_exact and keys and keys[-1] == len(c.ops) - 1:
        mres = model.get("%s.%d" % (c.cid, keys[-1]))
        toks = r["idx"]
        for pi, (df, mx, my) in enumerate(mres["idx"]):
            it = toks[pi * 4:(pi + 1) * 4]
            idef = it[0] != "u" and it[2] != "u"
            if idef != df or (idef and (int(it[0]) != mx or int(it[2]) != my)):
                dis.append(dict(what="lookup", particle=pi, impl=it, model=[df, mx, my]))
    return dis


# ------------------------------------------------------------------------------------ blob cases

class BlobCase:
    def __init__(self, cid, d, n, it, X, Y, offs, stream):
        self.cid, self.dir, self.n, self.it, self.X, self.Y, self.offs, self.stream = cid, d, n, it, X, Y, offs, stream

    def impl_text(self):
        return "blob %s %s %d %d %s %s %s\n" % (self.cid, self.dir, self.n, self.it, fhex(self.X), fhex(self.Y),
                                             " ".join(fhex(o) for o in self.offs))

    def model_text(self):
        return "blob %s %s %d %d %s %s %s\n" % (self.cid, self.dir, self.n, self.it, qtok(Fraction(self.X)), qtok(Fraction(self.Y)),
                                             " ".join(qtok(Fraction(o)) for o in self.offs))

    def replay(self):
        return dict(kind="blob", id=self.cid, dir=self.dir, n=self.n, it=self.it, X=fhex(self.X), Y=fhex(self.Y),
                    offs=[fhex(o) for o in self.offs], stream=self.stream)


def blob_from_replay(rp):
    return BlobCase(rp["id"], rp["dir"], rp["n"], rp["it"], float.fromhex(rp["X"]), float.fromhex(rp["Y"]),
                    [float.fromhex(o) for o in rp["offs"]], rp["stream"])


def gen_blobs(ctx, count, prefix="b"):
    rng = ctx.rng
    cases = []
    for i in range(count):
        exact = i % 2 == 0
        n = rng.choice(range(16, 29))
        it = rng.choice([2, 3, 4]) if not exact else rng.choice([2, 3])
        d = rng.choice(["x", "y"])
        amp = rng.choice([0.5, 1.5, 3.0])
        if exact:
            offs = [rng.randint(-int(amp * 16), int(amp * 16)) / 16.0 for _ in range(n)]
            X = rng.randint(6 * 8, (n - 7) * 8) / 8.0
            Y = rng.randint(6 * 8, (n - 7) * 8) / 8.0
        else:
            offs = [f32(rng.uniform(-amp, amp)) for _ in range(n)]
            X = f32(rng.uniform(6, n - 7))
            Y = f32(rng.uniform(6, n - 7))
        if rng.random() < 0.25:
            X = float(int(X))
        if rng.random() < 0.25:
            Y = float(int(Y))
        cases.append(BlobCase("%s%d" % (prefix, i), d, n, it, X, Y, offs, "exact" if exact else "tol"))
        ctx.count("blob:it%d:%s" % (it, d))
    return cases


def run_blobs(ctx, cases):
    tg = ctx.build(harness=("impl_track",))
    rc, out, err = run_driver(tg["impl_track"], "".join(c.impl_text() for c in cases))
    if rc != 0:
        raise RuntimeError("impl_track (blob) failed rc=%d: %s" % (rc, err[-2000:]))
    impl = parse_cases(out)
    rc, out, err = run_driver(vp_coq.model_path("track"), "".join(c.model_text() for c in cases))
    if rc != 0:
        raise RuntimeError("model_track (blob) failed rc=%d: %s" % (rc, err[-2000:]))
    model = parse_cases(out)
    res = {}
    for c in cases:
        i, m = impl[c.cid], model[c.cid]
        res[c.cid] = dict(ipart=[parse_c(t) for t in i["part"][0]], imom=[parse_c(t) for t in i["mom"][0]],
                          iout=[parse_c(t) for t in i["out"][0]],
                          mpart=[parse_q(t) for t in m["part"][0]], mmom=[parse_q(t) for t in m["mom"][0]],
                          mout=[parse_q(t) for t in m["out"][0]])
    return res


# ------------------------------------------------------------------------------------ time-dependent RF map + tracking

class DynCase:
    """DynamicRFKickMap (linear RF, phase modulation and/or phase/amplitude noise) and a DriftMap driven as main() drives them
    (`rfm->apply(); rfm->applyToAll(ps); drm->apply(); drm->applyToAll(ps)`), a unit hat-blob on particle 0"""

    def __init__(self, cid, n, it, qmax, angle, revpart, frf, phasespread, amplspread, modampl, modinc, steps, seed, slip0, parts, renew=6):
        self.cid, self.n, self.it, self.qmax, self.angle, self.revpart, self.frf = cid, n, it, qmax, angle, revpart, frf
        self.phasespread, self.amplspread, self.modampl, self.modinc = phasespread, amplspread, modampl, modinc
        self.steps, self.seed, self.slip0, self.parts, self.renew = steps, seed, slip0, parts, renew

    def impl_text(self):
        return "dyntrack %s %d %d %s %s %s %r %r %s %s %s %r %d %d %s %d %d %s\n" % (
            self.cid, self.n, self.it, fhex(-self.qmax), fhex(self.qmax), fhex(self.angle), self.revpart, self.frf,
            fhex(self.phasespread), fhex(self.amplspread), fhex(self.modampl), self.modinc, self.steps, self.seed,
            fhex(self.slip0), self.renew, len(self.parts), " ".join("%s %s" % (fhex(x), fhex(y)) for x, y in self.parts))

    def replay(self):
        return dict(kind="dyn", id=self.cid, n=self.n, it=self.it, qmax=fhex(self.qmax), angle=fhex(self.angle), revpart=self.revpart,
                    frf=self.frf, phasespread=fhex(self.phasespread), amplspread=fhex(self.amplspread), modampl=fhex(self.modampl),
                    modinc=self.modinc, steps=self.steps, seed=self.seed, slip0=fhex(self.slip0), renew=self.renew,
                    parts=[[fhex(x), fhex(y)] for x, y in self.parts])


def dyn_from_replay(rp):
    fh = float.fromhex
    return DynCase(rp["id"], rp["n"], rp["it"], fh(rp["qmax"]), fh(rp["angle"]), rp["revpart"], rp["frf"], fh(rp["phasespread"]),
                   fh(rp["amplspread"]), fh(rp["modampl"]), rp["modinc"], rp["steps"], rp["seed"], fh(rp["slip0"]),
                   [(fh(x), fh(y)) for x, y in rp["parts"]], rp.get("renew", 6))


def gen_dyn(ctx, count, prefix="d"):
    rng = ctx.rng
    cases = []
    for i in range(count):
        n = rng.choice([56, 64])
        it = rng.choice([3, 4])
        angle = f32(rng.uniform(0.08, 0.3))
        frf = 4.77e7 * rng.uniform(0.6, 1.6)                 # bl2phase = 2 pi f_RF / c of order one
        style = i % 3                                        # 0: phase modulation, 1: phase + amplitude noise, 2: both
        modampl = f32(rng.uniform(0.8, 2.0)) if style in (0, 2) else 0.0
        modinc = rng.choice([0.25, 0.2, 0.31, 0.125])
        phasespread = f32(rng.uniform(0.3, 0.8)) if style in (1, 2) else 0.0
        amplspread = f32(rng.uniform(0.0, 0.05)) if style in (1, 2) else 0.0
        steps = rng.randint(12, 40)
        slip0 = f32(angle * rng.uniform(0.6, 1.4))
        c0 = (n - 1) / 2.0
        parts = [(f32(c0 + rng.uniform(-3, 3)), f32(c0 + rng.uniform(-3, 3)))]
        parts += [(f32(rng.uniform(0, n - 1)), f32(rng.uniform(0, n - 1))) for _ in range(rng.randint(2, 6))]
        parts += [(0.0, float(n - 1)), (float(n - 1), 0.0)]
        cases.append(DynCase("%s%d" % (prefix, i), n, it, 6.0, angle, 1.0, frf, phasespread, amplspread, modampl, modinc, steps,
                             rng.randint(1, 2 ** 31 - 1), slip0, parts, renew=rng.choice([4, 6])))
        ctx.count("dyn:" + ("modulation", "noise", "modulation+noise")[style])
    return cases


def run_dyn(ctx, cases):
    tg = ctx.build(harness=("impl_track",))
    rc, out, err = run_driver(tg["impl_track"], "".join(c.impl_text() for c in cases))
    if rc != 0:
        raise RuntimeError("impl_track (dyntrack) failed rc=%d: %s" % (rc, err[-2000:]))
    impl = parse_cases(out)
    res = {}
    mtext = []
    for c in cases:
        r = impl[c.cid]
        d = dict(rf=[parse_c(t) for t in r["rf"][0]], offs0=[parse_c(t) for t in r["offs0"][0]],
                 queue=_pairs(r["queue"][0]), offs=[[parse_c(t) for t in l] for l in r["offs"]],
                 pre=[_pairs(l) for l in r["pre"]], rfpos=[_pairs(l) for l in r["rfpos"]], pos=[_pairs(l) for l in r["pos"]],
                 rfmom=[[parse_c(t) for t in l] for l in r["rfmom"]], mom=[[parse_c(t) for t in l] for l in r["mom"]])
        res[c.cid] = d
        flat = d["rf"] + d["offs0"] + [v for q in d["queue"] for v in q] + [v for l in d["pre"] for q in l for v in q]
        d["finite"] = not any(isinstance(v, str) for v in flat)
        if d["finite"]:
            mtext.append("dyntrack %s %d %s %d %d %s %s\n%s\n" % (
                c.cid, c.n, " ".join(qtok(v) for v in d["rf"]), c.steps, len(c.parts), " ".join(qtok(v) for v in d["offs0"]),
                " ".join("%s %s" % (qtok(a), qtok(b)) for a, b in d["queue"]),
                "\n".join(" ".join("%s %s" % (qtok(x), qtok(y)) for x, y in l) for l in d["pre"])))
    rc, out, err = run_driver(vp_coq.model_path("track"), "".join(mtext))
    if rc != 0:
        raise RuntimeError("model_track (dyntrack) failed rc=%d: %s" % (rc, err[-2000:]))
    model = parse_cases(out)
    for c in cases:
        m = model.get(c.cid)
        if m is not None:
            res[c.cid]["moffs"] = [[parse_q(t) for t in l] for l in m.get("offs", [])]
            res[c.cid]["mpos"] = [[(parse_q(l[i]), parse_q(l[i + 1])) for i in range(0, len(l), 2)] for l in m.get("pos", [])]
    return res


def compare_dyn(c, r):
    """model (generated DynamicRFKickMap::apply over the queue, then KickMap::applyTo reading `_offset`) against the
    implementation, step by step from the implementation's particles before the RF applyToAll"""
    dis = []
    if not r["finite"] or "moffs" not in r:
        return [dict(what="dyn-non-finite-or-model-missing")]
    tanq, sync, bl2 = r["rf"][0], r["rf"][1], r["rf"][2]
    for k in range(c.steps):
        if k >= len(r["moffs"]) or k >= len(r["offs"]):
            dis.append(dict(what="dyn-steps", step=k))
            break
        ph, am = r["queue"][k]
        # offsets: tan*(xc - x) + tan*(sync - ph)/bl2/delta, times ampl: a handful of float roundings on terms of this size
        scale = abs(tanq) * (c.n + abs(sync - ph) / abs(bl2) / r["rf"][4]) * (abs(am) + 1) + 1
        otol = 16 * U * scale
        for x, (a, b) in enumerate(zip(r["offs"][k], r["moffs"][k])):
            if isinstance(a, str) or abs(a - b) > otol:
                dis.append(dict(what="dyn-offsets", step=k, x=x, impl=str(a), model=str(b), tol=str(otol)))
                return dis
        for pi, ((ix, iy), (mx, my)) in enumerate(zip(r["rfpos"][k], r["mpos"][k])):
            if isinstance(ix, str) or isinstance(iy, str) or abs(ix - mx) > 0 or abs(iy - my) > otol + 8 * U * c.n:
                dis.append(dict(what="dyn-position", step=k, particle=pi, impl=[str(ix), str(iy)], model=[str(mx), str(my)]))
                return dis
    return dis


# ------------------------------------------------------------------------------------ every RF map main() can build + tracking

class RfCase:
    """RFKickMap / DynamicRFKickMap, linear or sinusoidal constructor, driven as main() drives the RF map
    (`rfm->apply(); rfm->applyToAll(ps)`) over several steps, a unit hat-blob on particle 0 (harness command rfblob)"""

    def __init__(self, cid, n, it, linear, dynamic, angle, revpart, vrf, v0, frf, phasespread, amplspread, modampl, modinc, steps, seed,
                 renew, parts, qmax=6.0):
        self.cid, self.n, self.it, self.linear, self.dynamic, self.angle, self.revpart = cid, n, it, linear, dynamic, angle, revpart
        self.vrf, self.v0, self.frf, self.phasespread, self.amplspread, self.modampl, self.modinc = vrf, v0, frf, phasespread, amplspread, modampl, modinc
        self.steps, self.seed, self.renew, self.parts, self.qmax = steps, seed, renew, parts, qmax

    def style(self):
        return "%s %s RF" % ("dynamic" if self.dynamic else "static", "linear" if self.linear else "sinusoidal") + (
            "" if not self.dynamic else " (%s)" % "+".join(w for w, v in (("phase modulation", self.modampl), ("phase noise", self.phasespread),
                                                                         ("amplitude noise", self.amplspread)) if v))

    def impl_text(self):
        return "rfblob %s %d %d %s %s %s %s %d %d %s %r %r %r %r %s %s %s %r %d %d %d %d %s\n" % (
            self.cid, self.n, self.it, fhex(-self.qmax), fhex(self.qmax), fhex(-self.qmax), fhex(self.qmax), self.linear, self.dynamic,
            fhex(self.angle), self.revpart, self.vrf, self.v0, self.frf, fhex(self.phasespread), fhex(self.amplspread), fhex(self.modampl),
            self.modinc, self.steps, self.seed, self.renew, len(self.parts), " ".join("%s %s" % (fhex(x), fhex(y)) for x, y in self.parts))

    def replay(self):
        return dict(kind="rfblob", id=self.cid, n=self.n, it=self.it, linear=self.linear, dynamic=self.dynamic, angle=fhex(self.angle),
                    revpart=self.revpart, vrf=self.vrf, v0=self.v0, frf=self.frf, phasespread=fhex(self.phasespread),
                    amplspread=fhex(self.amplspread), modampl=fhex(self.modampl), modinc=self.modinc, steps=self.steps, seed=self.seed,
                    renew=self.renew, qmax=fhex(self.qmax), parts=[[fhex(x), fhex(y)] for x, y in self.parts], setup=self.style())


def rf_from_replay(rp):
    fh = float.fromhex
    return RfCase(rp["id"], rp["n"], rp["it"], rp["linear"], rp["dynamic"], fh(rp["angle"]), rp["revpart"], rp["vrf"], rp["v0"], rp["frf"],
                  fh(rp["phasespread"]), fh(rp["amplspread"]), fh(rp["modampl"]), rp["modinc"], rp["steps"], rp["seed"], rp["renew"],
                  [(fh(x), fh(y)) for x, y in rp["parts"]], fh(rp.get("qmax", fhex(6.0))))


# (linear, dynamic, phase modulation, phase noise, amplitude noise): the four constructors of main(); the dynamic sinusoidal
# map with each source of time dependence alone and all together
RF_SETUPS = [(0, 1, 1, 0, 0), (0, 1, 0, 1, 0), (0, 1, 0, 0, 1), (0, 1, 1, 1, 1), (0, 0, 0, 0, 0), (1, 0, 0, 0, 0), (1, 1, 1, 0, 0), (1, 1, 0, 1, 1)]


def gen_rf(ctx, count, prefix="r"):
    rng = ctx.rng
    cases = []
    for i in range(count):
        lin, dyn, md, pn, an = RF_SETUPS[i % len(RF_SETUPS)]
        n = rng.choice([64, 72, 80])
        it = rng.choice([3, 4])
        delta = 12.0 / (n - 1)
        angle = f32(rng.uniform(0.05, 0.2))
        cells = rng.uniform(1.0, 2.5)                          # amplitude of the sinusoidal kick in mesh cells
        vrf = cells * delta
        v0 = vrf * rng.uniform(0.0, 0.3)
        percell = rng.uniform(0.05, 0.12)                      # RF phase per mesh cell (sinusoidal); linear: of the same order
        frf = 4.77e7 * percell / delta                         # bl2phase = 2 pi f_RF / c  (axis scale 1)
        modampl = f32(rng.uniform(0.3, 1.0)) if md else 0.0    # rad
        modinc = rng.choice([0.25, 0.2, 0.31, 0.125])
        phasespread = f32(rng.uniform(0.2, 0.6)) if pn else 0.0
        amplspread = f32(rng.uniform(0.1, 0.3)) if an else 0.0
        if lin:
            # tan(angle)*dphase/bl2phase/delta cells per step: keep the phase excursion at a few cells
            modampl, phasespread = f32(modampl * 0.3), f32(phasespread * 0.3)
        steps = rng.randint(8, 14)
        c0 = (n - 1) / 2.0
        parts = [(f32(c0 + rng.uniform(-5, 5)), f32(c0 + rng.uniform(-3, 3)))]
        if rng.random() < 0.3:
            parts[0] = (float(int(parts[0][0])), parts[0][1])  # on a mesh column
        parts += [(f32(rng.uniform(0, n - 1)), f32(rng.uniform(0, n - 1))) for _ in range(rng.randint(2, 5))]
        parts += [(0.0, float(n - 1)), (float(n - 1), 0.0)]
        cases.append(RfCase("%s%d" % (prefix, i), n, it, lin, dyn, angle, 1.0, vrf, v0, frf, phasespread, amplspread, modampl, modinc, steps,
                            rng.randint(1, 2 ** 31 - 1), rng.choice([3, 4]), parts))
        ctx.count("rfblob:" + cases[-1].style())
    return cases


def run_rf(ctx, cases):
    """implementation (rfblob) and, per step, the model: KickMap::applyTo as generated (gen_kick_y) over the table the grid has
    just been kicked with (`offs` of the same step), from the implementation's particles before applyToAll"""
    tg = ctx.build(harness=("impl_track",))
    rc, out, err = run_driver(tg["impl_track"], "".join(c.impl_text() for c in cases))
    if rc != 0:
        raise RuntimeError("impl_track (rfblob) failed rc=%d: %s" % (rc, err[-2000:]))
    impl = parse_cases(out)
    res = {}
    mtext = []
    for c in cases:
        r = impl[c.cid]
        d = dict(rf=[parse_c(t) for t in r["rf"][0]], queue=_pairs(r["queue"][0]) if r.get("queue") and r["queue"][0] else [],
                 offs=[[parse_c(t) for t in l] for l in r["offs"]], pre=[_pairs(l) for l in r["pre"]],
                 rfpos=[_pairs(l) for l in r["rfpos"]], rfmom=[[parse_c(t) for t in l] for l in r["rfmom"]])
        res[c.cid] = d
        d["mkeys"] = []
        for k in range(min(c.steps, len(d["offs"]))):
            if not _finite(d["pre"][k]) or any(isinstance(v, str) for v in d["offs"][k]):
                break
            if any(not (0 <= x <= c.n - 1 and 0 <= y <= c.n - 1) for x, y in d["pre"][k]):
                break
            mtext.append("track %s.%d %d %d 1\n%s\nkick y %s\n" % (c.cid, k, c.n, len(c.parts),
                                                                 " ".join("%s %s" % (qtok(x), qtok(y)) for x, y in d["pre"][k]),
                                                                 " ".join(qtok(v) for v in d["offs"][k])))
            d["mkeys"].append(k)
    rc, out, err = run_driver(vp_coq.model_path("track"), "".join(mtext))
    if rc != 0:
        raise RuntimeError("model_track (rfblob) failed rc=%d: %s" % (rc, err[-2000:]))
    model = parse_cases(out)
    for c in cases:
        d = res[c.cid]
        d["mpos"] = {}
        for k in d["mkeys"]:
            v = model.get("%s.%d" % (c.cid, k))
            if v is None or "gpos" not in v:
                continue
            g = [t if t in ("nan", "inf", "-inf") else parse_q(t) for t in v["gpos"][0]]
            d["mpos"][k] = [(g[i], g[i + 1]) for i in range(0, len(g), 2)]
    return res


def compare_rf(c, r):
    """every particle after `rfm->applyToAll` against the generated KickMap::applyTo over the SAME step's table"""
    dis = []
    for k in r["mkeys"]:
        if k not in r["mpos"]:
            return [dict(what="rfblob-model-missing", step=k)]
        omax = max(abs(v) for v in r["offs"][k])
        tol = 16 * U * (c.n + omax)
        for pi, ((ix, iy), (mx, my)) in enumerate(zip(r["rfpos"][k], r["mpos"][k])):
            if isinstance(ix, str) or isinstance(iy, str) or isinstance(mx, str) or isinstance(my, str) or ix != mx or abs(iy - my) > tol:
                dis.append(dict(what="rfblob-position", setup=c.style(), step=k, particle=pi, impl=[str(ix), str(iy)], model=[str(mx), str(my)]))
                return dis
    return dis


# ------------------------------------------------------------------------------------ loading of the tracking file

def run_load(ctx, count):
    """main()'s `{grid->x(q), grid->y(p)}` against gen_load (PhaseSpace::x / y as generated); returns (cases, results)"""
    rng = ctx.rng
    tg = ctx.build(harness=("impl_track",))
    specs = []
    for i in range(count):
        n = rng.choice(range(8, 65))
        exact = i % 2 == 0
        if exact:
            d = rng.choice([0.125, 0.25, 0.5])
            qmin, pmin = -rng.randint(1, n - 2) * d, -rng.randint(1, n - 2) * d
            qmax, pmax = qmin + (n - 1) * d, pmin + (n - 1) * d
            pts = [(rng.randint(-n * 16, n * 16) * d / 8, rng.randint(-n * 16, n * 16) * d / 8) for _ in range(12)]
        else:
            h = f32(rng.uniform(3, 8))
            sh = [f32(rng.uniform(-2, 2)), f32(rng.uniform(-2, 2))]
            qmin, qmax, pmin, pmax = f32(-h + sh[0]), f32(h + sh[0]), f32(-h + sh[1]), f32(h + sh[1])
            pts = [(f32(rng.uniform(-1.5 * h, 1.5 * h)), f32(rng.uniform(-1.5 * h, 1.5 * h))) for _ in range(12)]
        pts += [(qmin, pmax), (qmax, pmin), (f32(qmin - 1), f32(pmax + 1)), (1e30, -1e30)]
        specs.append(dict(id="l%d" % i, n=n, axes=[qmin, qmax, pmin, pmax], pts=pts, exact=exact))
    text = "".join("load %s %d %s %d %s\n" % (s["id"], s["n"], " ".join(fhex(a) for a in s["axes"]), len(s["pts"]),
                                              " ".join("%s %s" % (fhex(q), fhex(p)) for q, p in s["pts"])) for s in specs)
    rc, out, err = run_driver(tg["impl_track"], text)
    if rc != 0:
        raise RuntimeError("impl_track (load) failed rc=%d: %s" % (rc, err[-2000:]))
    impl = parse_cases(out)
    mtext = []
    for s in specs:
        ax = [parse_c(t) for t in impl[s["id"]]["axes"][0]]
        s["impl_axes"] = ax
        s["ipos"] = _pairs(impl[s["id"]]["pos"][0])
        if not any(isinstance(a, str) for a in ax):
            mtext.append("load %s %d %s %d %s\n" % (s["id"], s["n"], " ".join(qtok(a) for a in ax), len(s["pts"]),
                                                    " ".join("%s %s" % (qtok(Fraction(f32(q))), qtok(Fraction(f32(p)))) for q, p in s["pts"])))
    rc, out, err = run_driver(vp_coq.model_path("track"), "".join(mtext))
    if rc != 0:
        raise RuntimeError("model_track (load) failed rc=%d: %s" % (rc, err[-2000:]))
    model = parse_cases(out)
    for s in specs:
        m = model.get(s["id"])
        if m is not None:
            g = [t if t in ("nan", "inf", "-inf") else parse_q(t) for t in m["pos"][0]]
            s["mpos"] = [(g[i], g[i + 1]) for i in range(0, len(g), 2)]
    return specs
