"""Program-options cases (C13, C20): generator, the two drivers, the token oracles (lexical_cast is
glue: DESIGN 5/C20), comparison of model and implementation, and the property oracles evaluated on
the implementation's own output."""
import os, re, shutil, struct, sys, tempfile, subprocess
import vp_build
from fractions import Fraction
from vp_common import *
import vp_coq
sys.path.insert(0, os.path.join(VERIF, "translate"))

_info = None


LASTGOOD = os.path.join(VERIF, "coq", "GenLastGood", "Gen_Options.info.json")


def _enc(x):
    if isinstance(x, Fraction):
        return {"__q": "%d/%d" % (x.numerator, x.denominator)}
    if isinstance(x, tuple):
        return {"__t": [_enc(y) for y in x]}
    if isinstance(x, list):
        return [_enc(y) for y in x]
    if isinstance(x, dict):
        return {k: _enc(v) for k, v in x.items()}
    return x


def _dec(x):
    if isinstance(x, dict):
        if "__q" in x:
            return Fraction(x["__q"])
        if "__t" in x:
            return tuple(_dec(y) for y in x["__t"])
        return {k: _dec(v) for k, v in x.items()}
    if isinstance(x, list):
        return [_dec(y) for y in x]
    return x


def info():
    """the option table as the translator reads it from the working tree; when the translator no longer
    understands the source (DESIGN 2.2 downgrade) the committed last-good table drives the case generator,
    so that the oracles still run on the implementation and can produce a concrete failing input"""
    global _info
    if _info is None:
        import options2coq
        try:
            _, _info = options2coq.translate()
        except Exception:
            with open(LASTGOOD) as f:
                _info = _dec(json.load(f))
    return _info


def write_lastgood():
    import options2coq
    text, inf = options2coq.translate()
    with open(LASTGOOD, "w") as f:
        json.dump(_enc(inf), f, indent=0, sort_keys=True)
    with open(os.path.join(VERIF, "coq", "GenLastGood", "Gen_Options.v"), "w") as f:
        f.write(text)


def f32(x):
    try:
        return struct.unpack("f", struct.pack("f", x))[0]
    except OverflowError:
        return float("inf") if x > 0 else float("-inf")


# ------------------------------------------------------------------------------------ token oracles
NUM = re.compile(r"[+-]?(\d+\.?\d*|\.\d+)([eE][+-]?\d+)?$")
INT = re.compile(r"[+-]?\d+$")
TRUE, FALSE = ("", "on", "yes", "1", "true"), ("off", "no", "0", "false")


def value(ty, text):
    """what boost::lexical_cast / the bool validator make of a token; None = rejected"""
    if ty in ("TFloat", "TVecFloat", "TDouble"):
        if not NUM.match(text):
            return None
        v = float(text)
        if ty != "TDouble":
            v = f32(v)
        if v in (float("inf"), float("-inf")):
            return None
        return v
    if ty in ("TI32", "TU32", "TI64", "TU64"):
        if not INT.match(text):
            return None
        v = int(text)
        bits = 32 if ty in ("TI32", "TU32") else 64
        if ty in ("TU32", "TU64"):
            if abs(v) >= 2 ** bits:
                return None
            if text.startswith("-") and ty in negcheck_types():
                return None                 # parse() refuses a minus sign before the tokens are stored (fix: 6ffb382)
            return v % 2 ** bits            # lexical_cast negates in the unsigned type
        if not (-2 ** (bits - 1) <= v < 2 ** (bits - 1)):
            return None
        return v
    if ty == "TBool":
        t = text.lower()
        return 1 if t in TRUE else 0 if t in FALSE else None
    if ty == "TString":
        return text
    if ty == "TUChar":
        return ord(text) if len(text) == 1 else None
    raise ValueError(ty)


def negcheck_types():
    """unsigned types whose tokens parse() checks for a minus sign (read from the source by the translator)"""
    return set(info()["prog"].get("negcheck") or [])


def spec_malformed(ty, text):
    """malformed in the sense of the property: not a value of the option's type (a signed text is not the text of
    an unsigned value, whatever lexical_cast makes of it)"""
    if value(ty, text) is None:
        return True
    if ty in ("TU32", "TU64") and text.startswith("-"):
        return True
    return False


# What each current option MEANS: the getter of ProgramOptions (inc/IO/ProgramOptions.hpp) through which main() reads it,
# named by the label under which harness/impl_options.cpp prints that getter (_showphasespace, _glversion, _configfile:
# no getter in this build, private member).  Hand-written on purpose - the constructor's `&member` binding, which the
# translator reads into the table, is what the oracle and the correspondence check against it.  An option that is not
# listed (added later) falls back to the member the table names.
GETTER = {
    "AcceleratingVoltage": "V_RF", "BeamEnergy": "E_0", "BeamEnergySpread": "s_E", "BendingRadius": "r_bend",
    "BunchCurrent": "I_b", "CollimatorRadius": "collimator", "CutoffFreq": "f_c", "DampingTime": "t_d",
    "FPTrack": "fptrack", "FPType": "fptype", "ForceOpenGLVersion": "_glversion", "GridSize": "meshsize",
    "HarmonicNumber": "H", "Impedance": "_impedancefile", "InitialDistFile": "_startdistfile",
    "InitialDistStep": "_startdiststep", "InitialDistZoom": "zoom", "InterpolateClamped": "interpol_clamp",
    "InterpolationPoints": "interpol_type", "LinearRF": "linearRF", "PhaseSpaceShiftX": "meshshiftx",
    "PhaseSpaceShiftY": "meshshifty", "PhaseSpaceSize": "pq_size", "RFAmplitudeSpread": "rf_amplitude_spread",
    "RFPhaseModAmplitude": "rf_phase_mod_amplitude", "RFPhaseModFrequency": "rf_phase_mod_frequency",
    "RFPhaseSpread": "rf_phase_spread", "RenormalizeCharge": "renormalize", "RevolutionFrequency": "f0",
    "RoundPadding": "roundpadding", "SavePhaseSpace": "_savephasespace", "StepsPerRevolution": "steps_per_Trev",
    "StepsPerTs": "steps_per_Ts", "SynchrotronFrequency": "f_s", "UseCSR": "use_csr", "VacuumGap": "g",
    "WallConductivity": "s_c", "WallSusceptibility": "xi_wall", "alpha0": "alpha0", "alpha1": "alpha1",
    "alpha2": "alpha2", "cldev": "_cldevice", "config": "_configfile", "derivation": "deriv_type",
    "gui": "_showphasespace", "output": "_outfile", "outstep": "outsteps", "padding": "padding",
    "rotations": "rotations", "run_anyway": "_forcerun", "tracking": "_trackingfile", "verbose": "_verbose",
}
# legacy names and the current names they stand for (help strings of the _compatopts_alias group)
SPEC_ALIAS = {"RFVoltage": "AcceleratingVoltage", "SyncFreq": "SynchrotronFrequency", "steps": "StepsPerTs"}


def alias_names():
    """{current name: legacy name}: what the property calls legacy names (SPEC_ALIAS) plus whatever the table declares -
    the generators use legacy names in files even when the table read from the source no longer knows them"""
    tab = info()["table"]
    res = {cn: a for a, cn in SPEC_ALIAS.items() if cn in tab}
    for o in tab.values():
        if o["kind"] == "KAlias" and o.get("canon") in tab:
            res.setdefault(o["canon"], o["name"])
    return res


def label_of(o):
    """harness label through which the value of option o is observed"""
    if o["kind"] == "KCanon":
        return GETTER.get(o["name"], o["var"])
    if o["kind"] == "KAlias":
        return GETTER.get(SPEC_ALIAS.get(o["name"], o.get("canon")), o["var"])
    return o["var"]


def var_labels():
    """{member named by the table: label of the getter that the option bound to it is documented to feed}"""
    res = {}
    for o in info()["table"].values():
        if o["kind"] == "KCanon" and o["ty"] != "TFlag":
            res[o["var"]] = label_of(o)
    return res


def default_value(ty, d):
    kind, v = d
    if kind == "bool":
        return 1 if v else 0
    if kind == "str":
        return v
    if ty in ("TFloat", "TVecFloat"):
        return f32(float(v))
    if ty == "TDouble":
        return float(v)
    return int(v)


def fmt6(ty, v):
    return "%.6g" % v


# ------------------------------------------------------------------------------------ cases

class OptCase:
    def __init__(self, cid):
        self.cid = cid
        self.cli = []        # dicts: kind 'L'|'S', name (as spelled), toks [text], opt (intended table name or None)
        self.stray = []      # (position in cli list, text): bare tokens on the command line
        self.xcli = []       # extra command-line options of a second reload: `inovesa <xcli> --config saved.cfg`
        self.dflt = None     # items of ./default.cfg or None
        self.cfg = None      # dict(file=text, state='devnull'|'missing'|'file', items=[(name,[text])])
        self.tags = set()
        self.toks = {"0": 0, "1": 1}

    def tid(self, text):
        if text not in self.toks:
            self.toks[text] = len(self.toks)
        return self.toks[text]

    def text_of(self, t):
        if t < 0:
            return None
        for k, v in self.toks.items():
            if v == t:
                return k
        raise KeyError(t)

    def argv(self):
        av = ["inovesa"]
        stray = {}
        for pos, text in self.stray:
            stray.setdefault(pos, []).append(text)
        for i, c in enumerate(self.cli):
            av += stray.get(i, [])
            if c["kind"] == "L":
                if c.get("eq") and len(c["toks"]) == 1:
                    av.append("--%s=%s" % (c["name"], c["toks"][0]))
                else:
                    av.append("--" + c["name"])
                    av += c["toks"]
            else:
                av.append("-" + c["name"])
                av += c["toks"]
        av += stray.get(len(self.cli), [])
        return av

    def xargv(self):
        av = []
        for c in self.xcli:
            av.append(("--" if c["kind"] == "L" else "-") + c["name"])
            av += c["toks"]
        return av

    def replay(self):
        r = dict(kind="options", id=self.cid, argv=self.argv(), default_cfg=self.dflt, config=self.cfg,
                 tags=sorted(self.tags))
        if self.xcli:
            r["reload_argv"] = self.xargv()
        return r

    def replay_raw(self):
        return dict(kind="options", id=self.cid, argv=self.raw_argv, default_cfg=self.dflt, config=self.cfg, tags=sorted(self.tags))

    @staticmethod
    def from_replay(rp):
        c = OptCase(rp.get("id", "rp"))
        c.raw_argv = rp["argv"]
        c.dflt = [tuple(x) for x in rp["default_cfg"]] if rp.get("default_cfg") is not None else None
        c.cfg = rp.get("config")
        c.tags = set(rp.get("tags", []))
        c.raw_xargv = rp.get("reload_argv") or []
        c.xcli = cli_of(c.raw_xargv)          # for the oracle of the reload with extra options
        return c


def cli_of(av):
    """option occurrences of a plain argv tail (`--name v ...`, `-x v ...`; a word starting with - and not a number opens one)"""
    res, i = [], 0
    while i < len(av):
        nm = av[i]
        j = i + 1
        while j < len(av) and not (av[j].startswith("-") and not av[j][1:2].isdigit() and av[j] != "-"):
            j += 1
        kind = "L" if nm.startswith("--") else "S"
        o = spec_resolve(nm.lstrip("-"), kind)
        res.append(dict(kind=kind, name=nm.lstrip("-"), toks=av[i + 1:j], opt=o["name"] if o else None))
        i = j
    return res


def esc(s):
    if s == "":
        return "%"
    return "".join(ch if (ch.isalnum() and ord(ch) < 128) or ch in "_./-" else "%%%02X" % ord(ch) for ch in s)


def unesc(s):
    if s == "%":
        return ""
    return re.sub(r"%([0-9A-F]{2})", lambda m: chr(int(m.group(1), 16)), s)


def cfg_text(items, decor=None):
    """the text of a configuration file.  decor: {str(index of the item): [before the name, before '=', after '=', after the
    value]} - white space and comments that boost's reader drops (Model/CfgText.v read_line), for single-token items"""
    if not decor:
        return "".join("%s=%s\n" % (n, t) for n, ts in items for t in ts)
    out = []
    for i, (n, ts) in enumerate(items):
        d = decor.get(str(i))
        for t in ts:
            out.append("%s%s%s=%s%s%s\n" % (d[0], n, d[1], d[2], t, d[3]) if d and len(ts) == 1 else "%s=%s\n" % (n, t))
    return "".join(out)


def model_text(c):
    inf = info()
    stray = {}
    for pos, text in c.stray:
        stray.setdefault(pos, []).append(text)
    seq = []
    for i, x in enumerate(c.cli + [None]):
        seq += ["B _ 1 %d" % c.tid(t) for t in stray.get(i, [])]       # bare words, where argv() puts them
        if x is not None:
            seq.append("%s %s %d %s" % (x["kind"], x["name"], len(x["toks"]), " ".join(str(c.tid(t)) for t in x["toks"])))
    L = ["opt %s" % c.cid, str(len(seq))] + seq

    def items(its):
        flat = [(n, t) for n, ts in its for t in ts]      # one file line per token
        return "%d %s" % (len(flat), " ".join("%s 1 %d" % (n, c.tid(t)) for n, t in flat))
    L.append("dflt " + ("none" if c.dflt is None else "file " + items(c.dflt)))
    if c.cfg is None:
        L.append("cfg none")
    else:
        t = c.tid(c.cfg["file"])
        if c.cfg["state"] == "file":
            L.append("cfg %d file %s" % (t, items(c.cfg["items"])))
        else:
            L.append("cfg %d %s" % (t, c.cfg["state"]))
    reload_tok = c.tid("saved.cfg")
    xseq = ["%s %s %d %s" % (x["kind"], x["name"], len(x["toks"]), " ".join(str(c.tid(t)) for t in x["toks"])) for x in c.xcli]
    # oracles over every (type, token) pair that can meet
    types = sorted(set(o["ty"] for o in inf["table"].values() if o["ty"] != "TFlag"))
    bad, zeros, rounds = [], [], []
    texts = list(c.toks.items())
    for text, t in texts:
        for ty in types:
            v = value(ty, text)
            if v is None:
                bad.append("%s %d" % (ty, t))
        v = value("TFloat", text)
        if v is not None and v == 0:
            zeros.append(str(t))
    for k, (ty, d) in enumerate(inf["defaults"]):
        if ty in ("TFloat", "TDouble") and default_value(ty, d) == 0:
            zeros.append(str(-(k + 1)))
    if not inf["precise"]:
        for text, t in texts:
            for ty in ("TFloat", "TDouble", "TVecFloat"):
                v = value(ty, text)
                if v is not None:
                    r = fmt6(ty, v)
                    if value(ty, r) != v:
                        rounds.append("%s %d %d" % (ty, t, c.tid(r)))
        for k, (ty, d) in enumerate(inf["defaults"]):
            if ty in ("TFloat", "TDouble"):
                v = default_value(ty, d)
                r = fmt6(ty, v)
                if value(ty, r) != v:
                    rounds.append("%s %d %d" % (ty, -(k + 1), c.tid(r)))
        # tokens created by rounding can be malformed for no floating type; integer types never see them
    L.append("%d %s" % (len(bad), " ".join(bad)))
    L.append("%d %s" % (len(zeros), " ".join(zeros)))
    L.append("%d %s" % (len(rounds), " ".join(rounds)))
    L.append(str(reload_tok))
    L.append(" ".join([str(len(xseq))] + xseq))
    return "\n".join(L) + "\n"


def run_cases(ctx, cases, tg=None):
    """-> {cid: dict(model=..., impl=..., saved_text=...)}"""
    tg = tg or ctx.build(harness=("impl_options",))
    root = tempfile.mkdtemp(prefix="vopt", dir=os.path.join(VERIF, ".cache"))
    try:
        itext, mtext = [], []
        for c in cases:
            wd = os.path.join(root, c.cid)
            os.makedirs(wd)
            if c.dflt is not None:
                with open(os.path.join(wd, "default.cfg"), "w") as f:
                    f.write(cfg_text(c.dflt))
            if c.cfg is not None and c.cfg["state"] == "file":
                os.makedirs(os.path.dirname(os.path.join(wd, c.cfg["file"])), exist_ok=True)      # a config file in a sub-directory (C13 layouts)
                with open(os.path.join(wd, c.cfg["file"]), "w") as f:
                    # raw_text: a file taken over verbatim (the binary's own saved file), not written from items
                    f.write(c.cfg["raw_text"] if c.cfg.get("raw_text") is not None else cfg_text(c.cfg["items"], c.cfg.get("decor")))
            av = getattr(c, "raw_argv", None) or c.argv()
            xav = getattr(c, "raw_xargv", None) if hasattr(c, "raw_argv") else c.xargv()
            xav = xav or []
            itext.append("opt %s %s %d %s %d %s" % (c.cid, esc(wd), len(av), " ".join(esc(a) for a in av),
                                                    len(xav), " ".join(esc(a) for a in xav)))
            if not hasattr(c, "raw_argv"):
                mtext.append(model_text(c))
        rc, out, err = run_driver(tg["impl_options"], "\n".join(itext) + "\n", timeout=900)
        if rc != 0:
            raise RuntimeError("impl_options: rc=%d %s" % (rc, err[-800:]))
        impl = parse_cases(out)
        model = {}
        if mtext:
            rc, out, err = run_driver(vp_coq.model_path("options"), "".join(mtext), timeout=900)
            if rc != 0:
                raise RuntimeError("model_options: rc=%d %s" % (rc, err[-800:]))
            model = parse_cases(out)
        res = {}
        for c in cases:
            sp = os.path.join(root, c.cid, "saved.cfg")
            res[c.cid] = dict(impl=impl.get(c.cid), model=model.get(c.cid),
                              saved=open(sp, newline="").read() if os.path.exists(sp) else None)      # no newline translation: a value may hold a CR
        return res
    finally:
        shutil.rmtree(root, ignore_errors=True)


# ------------------------------------------------------------------------------------ reading results

def var_types():
    vt = {}
    for o in info()["table"].values():
        if o["ty"] != "TFlag":
            vt.setdefault(o["var"], o["ty"])
    return vt


UNINIT = {"rotationtype", "_savesourcemap"}     # no default and no initialiser: never read by the harness


def init_value(var, ty):
    inf = info()
    txt = inf["inits"].get(var)
    if ty == "TVecFloat":
        m = re.search(r"\{([^{}]*)\}", txt or "")
        if not m:
            return []
        return [f32(float(x.rstrip("fF"))) for x in m.group(1).split(",") if x]
    if ty == "TString":
        m = re.search(r'"([^"]*)"', txt or "")
        return m.group(1) if m else ""
    return None


def impl_vars(r, pre=""):
    res = {}
    for p in r.get(pre + "var", []):
        name, kind = p[0], p[1]
        if kind == "s":
            res[name] = unesc(p[2]) if len(p) > 2 else ""
        elif kind == "i":
            res[name] = int(p[2])
        elif kind == "f":
            res[name] = float.fromhex(p[2])
        else:
            res[name] = [float.fromhex(x) for x in p[2:]]
    return res


def tok_value(c, ty, t):
    if t < 0:
        dty, d = info()["defaults"][-t - 1]
        return default_value(ty, d)
    return value(ty, c.text_of(t))


def model_vars(c, r, pre=""):
    vt = var_types()
    devnull = set(v for k, v in info()["prog"]["tail"] if k == "devnull")
    res = {}
    for p in r.get(pre + "var", []):
        name = p[0]
        ty = vt[name]
        if p[1] == "none":
            res[name] = init_value(name, ty)
            continue
        ts = [int(x) for x in p[2:]]
        if ty == "TVecFloat":
            res[name] = [tok_value(c, ty, t) for t in ts]
        else:
            res[name] = tok_value(c, ty, ts[0]) if ts else None
        if name in devnull and res[name] == "/dev/null":
            res[name] = ""            # glue: parse() clears these members after the stores
    return res


def same(a, b):
    if isinstance(a, float) and isinstance(b, float):
        return a == b or (a != a and b != b)
    return a == b


def status(r, pre=""):
    return r[pre + "status"][0][0]


def compare(c, res, by_getter=True, reload_expect=None):
    """model vs implementation; -> list of differences.  by_getter: a member of the model is compared with the getter
    that the option bound to it is documented to feed (C20: a wrong `&member` binding is a difference); otherwise
    with the member of the same name (C13: the round trip does not depend on which member an option is bound to)"""
    m, i = res["model"], res["impl"]
    if m is None or i is None:
        return ["missing output (model %s, impl %s)" % (m is not None, i is not None)]
    d = []
    if status(m) != status(i):
        return ["status: model %s, impl %s (%s)" % (status(m), status(i), unesc(i["message"][0][0]) if i.get("message") and i["message"][0] else "")]
    if status(m) != "run":
        return d
    if m.get("law") != [["true"]]:
        d.append("the re-reading law of C13 (reparse_lawb) does not hold for the token oracle of this case")
    lbl = var_labels() if by_getter else {}
    mv, iv = model_vars(c, m), impl_vars(i)
    for k, v in mv.items():
        g = lbl.get(k, k)
        if k in UNINIT or g not in iv or v is None:
            continue
        if not same(v, iv[g]):
            d.append("var %s (getter %s): model %r, impl %r" % (k, g, v, iv[g]))
    # the saved file
    vt_name = {o["name"]: o["ty"] for o in info()["table"].values()}
    ms = [(p[0], int(p[1])) for p in m.get("saved", [])]
    isv = []
    for line in (res["saved"] or "").split("\n"):      # lines end at LF only (a value may hold a CR)
        if line.startswith("#") or not line.strip():
            continue
        n, _, t = line.partition("=")
        isv.append((n, t))
    if [n for n, _ in ms] != [n for n, _ in isv]:
        d.append("saved names: model %s, impl %s" % ([n for n, _ in ms], [n for n, _ in isv]))
    else:
        for (n, t), (_, txt) in zip(ms, isv):
            ty = vt_name[n]
            a, b = tok_value(c, ty, t), value(ty, txt)
            if not same(a, b):
                d.append("saved %s: model %r, impl %r (%s)" % (n, a, b, txt))
    if status(m, "r") != status(i, "r"):
        d.append("reload status: model %s, impl %s" % (status(m, "r"), status(i, "r")))
    elif status(m, "r") == "run":
        mv, iv = model_vars(c, m, "r"), impl_vars(i, "r")
        for k, v in mv.items():
            g = lbl.get(k, k)
            if k in UNINIT or g not in iv or v is None:
                continue
            if reload_expect and k in reload_expect:
                # the token model hands the reload the saved TOKEN; for a string a line cannot hold, the text model
                # (Model/CfgText.v, extracted) says what the reader makes of the saved TEXT
                v = reload_expect[k]
            if not same(v, iv[g]):
                d.append("reload var %s (getter %s): model %r, impl %r" % (k, g, v, iv[g]))
    if c.xcli and status(m, "r") == "run":
        if not m.get("xstatus") or not i.get("xstatus"):
            d.append("reload with extra options: missing output (model %s, impl %s)" % (bool(m.get("xstatus")), bool(i.get("xstatus"))))
        elif status(m, "x") != status(i, "x"):
            d.append("reload with extra options %s: status model %s, impl %s" % (c.xargv(), status(m, "x"), status(i, "x")))
        elif status(m, "x") == "run":
            mv, iv = model_vars(c, m, "x"), impl_vars(i, "x")
            for k, v in mv.items():
                g = lbl.get(k, k)
                if k in UNINIT or g not in iv or v is None:
                    continue
                if not same(v, iv[g]):
                    d.append("reload with extra options %s: var %s (getter %s): model %r, impl %r" % (c.xargv(), k, g, v, iv[g]))
    return d


# ------------------------------------------------------------------------------------ generator

LEGAL = {
    "TFloat": ["0", "1", "2.5", "0.125", "-3", "1e6", "4e-3", "0.001", "1.2345678", "123456.7", "9.87654321e8", "3.0000001",
               "1e-30", "16777217"],
    "TDouble": ["0", "1", "0.5", "-2", "1e6", "1.3e9", "4.7e-4", "0.1", "1.23456789e9", "0.12345678901234567", "3.141592653589793",
                "1234567.891", "1e-300", "-0.000123456789"],
    "TI32": ["0", "1", "-1", "7", "-12", "2147483647", "-2147483648"],
    "TU32": ["0", "1", "2", "3", "4", "17", "256", "1000", "4294967295"],
    "TI64": ["0", "-1", "5", "123456789012", "-9"],
    "TBool": ["true", "false", "1", "0", "on", "off", "yes", "no", "True"],
    "TString": ["a.h5", "out/run1.hdf5", "x", "/dev/null", "file_2.txt", "imp.dat"],
    "TUChar": ["2", "3", "4"],
    "TVecFloat": ["0", "1e-3", "0.5", "3e-3", "1.2345678e-4", "2"],
}
BAD = {
    "TFloat": ["abc", "1.2.3", "1e6x", "0x10", "1,5"],
    "TDouble": ["abc", "1..2", "--1", "1e", "3 4"],
    "TI32": ["1.5", "x", "2147483648", "1e3"],
    "TU32": ["1.5", "x", "4294967296", "1e3", "0x20"],
    "TI64": ["1.5", "x"],
    "TBool": ["2", "maybe", "tru"],
    "TUChar": ["22", "abc"],
    "TVecFloat": ["abc", "1.2.3"],
}


def typed_opts():
    return [o for o in info()["table"].values() if o["ty"] != "TFlag"]


def gen_case(ctx, cid, kind):
    """kind: legal | alias | malformed | short (few options) """
    rng = ctx.rng
    inf = info()
    tab = inf["table"]
    c = OptCase(cid)
    canon = [o for o in tab.values() if o["kind"] == "KCanon" and o["name"] != inf["cfgopt"]]
    aliases = alias_names()
    ignored = [o for o in tab.values() if o["kind"] == "KIgnored"]
    cli_names = [o["name"] for o in tab.values() if o["cli"]]
    k = rng.choice([0, 1, 2, 3, 5, 8, 14, 30]) if kind != "short" else rng.choice([0, 1, 2])
    chosen = rng.sample(canon, min(k, len(canon)))
    if kind == "alias":
        for cn in rng.sample(sorted(aliases), rng.randint(1, len(aliases))):
            if tab[cn] not in chosen:
                chosen.append(tab[cn])
    use_cfg = rng.random() < 0.75 or kind == "alias"
    cfg_items = []
    for o in chosen:
        where = rng.choice(["cli", "cfg", "both"]) if use_cfg else "cli"
        if kind == "alias" and o["name"] in aliases and where == "cli":
            where = rng.choice(["cfg", "both"])
        pool = LEGAL[o["ty"]]
        if o["ty"] == "TVecFloat":
            toks = lambda: [rng.choice(pool) for _ in range(rng.randint(1, 4))]
        else:
            toks = lambda: [rng.choice(pool)]
        if where in ("cli", "both"):
            ts = toks()
            if o["implicit"] and rng.random() < 0.7:
                ts = []
            if ts and ts[0].startswith("/") is False and o["ty"] == "TString" and ts[0].startswith("-"):
                ts = ["x"]
            r = rng.random()
            if o["short"] and r < 0.35:
                c.cli.append(dict(kind="S", name=o["short"], toks=ts, opt=o["name"]))
            elif r < 0.5 and len(o["name"]) > 3:
                cut = rng.randint(max(2, len(o["name"]) - 6), len(o["name"]) - 1)
                c.cli.append(dict(kind="L", name=o["name"][:cut], toks=ts, opt=o["name"]))
                c.tags.add("prefix")
            else:
                c.cli.append(dict(kind="L", name=o["name"], toks=ts, opt=o["name"],
                                  eq=(rng.random() < 0.3 and len(ts) == 1)))
        if where in ("cfg", "both"):
            nm = o["name"]
            if o["name"] in aliases and (kind == "alias" or rng.random() < 0.3):
                nm = aliases[o["name"]]
                c.tags.add("alias")
                if where == "both":
                    c.tags.add("alias-in-cfg-canonical-on-cli")
            ts = toks()
            cfg_items.append((nm, ts))
    if use_cfg and rng.random() < 0.3:
        for o in rng.sample(ignored, rng.randint(1, len(ignored))):
            cfg_items.append((o["name"], [rng.choice(LEGAL[o["ty"]])]))
            c.tags.add("ignored")
    rng.shuffle(cfg_items)
    # a vector option keeps the order of its lines: fine, shuffling moves whole items
    rng.shuffle(c.cli)
    if use_cfg:
        if rng.random() < 0.25:
            c.dflt = cfg_items
            c.tags.add("default.cfg")
        else:
            c.cfg = dict(file="run.cfg", state="file", items=cfg_items)
            spell = rng.choice([("L", "config"), ("S", "c"), ("L", "conf")])
            c.cli.insert(rng.randint(0, len(c.cli)), dict(kind=spell[0], name=spell[1], toks=["run.cfg"], opt=inf["cfgopt"]))
    elif rng.random() < 0.15:
        c.cfg = dict(file="/dev/null", state="devnull", items=[])
        c.cli.append(dict(kind="L", name="config", toks=["/dev/null"], opt=inf["cfgopt"]))
        if rng.random() < 0.5:
            c.dflt = [("GridSize", ["64"])]
    if kind == "malformed":
        inject(ctx, c)
    return c


def inject(ctx, c):
    rng = ctx.rng
    inf = info()
    tab = inf["table"]
    file_items = c.cfg["items"] if c.cfg and c.cfg["state"] == "file" else (c.dflt if c.dflt is not None else None)
    kinds = ["unknown-cli", "bad-cli", "repeat-cli", "stray", "neg-unsigned", "alias-cli", "flag", "missing-config", "ambiguous"]
    if file_items is not None:
        kinds += ["unknown-cfg", "bad-cfg", "repeat-cfg", "config-in-cfg", "neg-unsigned-cfg"]
    k = rng.choice(kinds)
    c.tags.add("inj:" + k)
    scal = [o for o in typed_opts() if o["ty"] in BAD and o["ty"] != "TVecFloat" and o["kind"] == "KCanon" and o["cli"]]
    pos = rng.randint(0, len(c.cli))
    if k == "unknown-cli":
        c.cli.insert(pos, dict(kind="L", name=rng.choice(["Gridsize", "alpha3", "foo", "BunchCurrents", "gridsize"]), toks=["1"], opt=None))
    elif k == "alias-cli":
        a = rng.choice([o for o in tab.values() if o["kind"] in ("KAlias", "KIgnored")])
        c.cli.insert(pos, dict(kind="L", name=a["name"], toks=[LEGAL[a["ty"]][1]], opt=None))
    elif k == "bad-cli":
        o = rng.choice(scal)
        c.cli = [x for x in c.cli if x["opt"] != o["name"]]
        c.cli.append(dict(kind="L", name=o["name"], toks=[rng.choice(BAD[o["ty"]])], opt=o["name"]))
    elif k == "repeat-cli":
        o = rng.choice(scal)
        c.cli = [x for x in c.cli if x["opt"] != o["name"]]
        for _ in range(2):
            c.cli.insert(rng.randint(0, len(c.cli)), dict(kind="L", name=o["name"], toks=[LEGAL[o["ty"]][0]], opt=o["name"]))
    elif k == "stray":
        # after a scalar option or at the start: a bare word (after a multitoken option it would be a value)
        ok = [i for i in range(len(c.cli) + 1) if i == 0 or (tab.get(c.cli[i - 1]["opt"] or "", {}).get("ty") not in ("TVecFloat", "TBool"))]
        c.stray.append((rng.choice(ok), rng.choice(["stray", "T", "10", "run.cfg2"])))
    elif k == "neg-unsigned":
        o = rng.choice([o for o in scal if o["ty"] == "TU32"])
        c.cli = [x for x in c.cli if x["opt"] != o["name"]]
        c.cli.append(dict(kind="L", name=o["name"], toks=[rng.choice(["-5", "-1", "-4294967295"])], opt=o["name"]))
    elif k == "flag":
        c.cli.insert(pos, dict(kind="L", name=rng.choice(inf["prog"]["flags"]), toks=[], opt=None))
    elif k == "missing-config":
        c.cli = [x for x in c.cli if x["opt"] != inf["cfgopt"]]
        c.cfg = dict(file="nosuch.cfg", state="missing", items=[])
        c.cli.append(dict(kind="L", name="config", toks=["nosuch.cfg"], opt=inf["cfgopt"]))
    elif k == "ambiguous":
        c.cli.insert(pos, dict(kind="L", name=rng.choice(["RFPhase", "alpha", "Initial", "PhaseSpaceS", "S", "F"]), toks=["1"], opt=None))
    elif k == "unknown-cfg":
        file_items.insert(rng.randint(0, len(file_items)), (rng.choice(["Gridsize", "GridS", "s", "foo", "help"]), ["1"]))
    elif k == "config-in-cfg":
        file_items.append(("config", ["other.cfg"]))
    elif k == "bad-cfg":
        o = rng.choice([o for o in typed_opts() if o["ty"] in BAD and o["file"]])
        file_items[:] = [x for x in file_items if x[0] != o["name"]]
        file_items.append((o["name"], [rng.choice([b for b in BAD[o["ty"]] if " " not in b])]))
    elif k == "repeat-cfg":
        o = rng.choice([o for o in scal if o["file"]])
        file_items[:] = [x for x in file_items if x[0] != o["name"]]
        for _ in range(2):
            file_items.insert(rng.randint(0, len(file_items)), (o["name"], [LEGAL[o["ty"]][0]]))
    elif k == "neg-unsigned-cfg":
        o = rng.choice([o for o in scal if o["ty"] == "TU32" and o["file"]])
        file_items[:] = [x for x in file_items if x[0] != o["name"]]
        file_items.append((o["name"], ["-7"]))


# ------------------------------------------------------------------------------------ case splits of the alias / reload theorems

ALIAS_SCENARIOS = ["both-names", "both-names-cli", "shadowed-malformed", "shadowed-legal", "alias-malformed", "alias-repeated",
                   "alias-plain", "both-names-malformed"]


def gen_alias2(ctx, cid, scenario=None):
    """aimed at the case splits of alias_equivalence / both_names_current_wins (Props/Properties_C20.v): one to three options
    that have a legacy name, each in one of the scenarios; a few other options around them; the file is run.cfg or ./default.cfg"""
    rng = ctx.rng
    inf = info()
    tab = inf["table"]
    c = OptCase(cid)
    aliases = {cn: dict(name=a) for cn, a in alias_names().items()}
    canon = [o for o in tab.values() if o["kind"] == "KCanon" and o["name"] != inf["cfgopt"] and o["name"] not in aliases
             and o["ty"] != "TFlag"]
    items = []
    for cn in rng.sample(sorted(aliases), rng.randint(1, len(aliases))):
        o, a = tab[cn], aliases[cn]
        sc = scenario or rng.choice(ALIAS_SCENARIOS)
        c.tags.add("alias")
        c.tags.add("sc:" + sc)
        pool = LEGAL[o["ty"]]
        legal = lambda: [rng.choice(pool)] if o["ty"] != "TVecFloat" else [rng.choice(pool) for _ in range(rng.randint(1, 3))]
        bad = lambda: [rng.choice([b for b in BAD[o["ty"]] if " " not in b])]

        def cli_current():
            k = "S" if o["short"] and rng.random() < 0.5 else "L"
            c.cli.append(dict(kind=k, name=o["short"] if k == "S" else o["name"], toks=legal(), opt=o["name"]))
            c.tags.add("alias-in-cfg-canonical-on-cli")
        if sc in ("both-names", "both-names-cli", "both-names-malformed"):
            two = [(a["name"], bad() if sc == "both-names-malformed" else legal()), (o["name"], legal())]
            rng.shuffle(two)
            items += two
            if sc == "both-names-cli":
                cli_current()
        elif sc == "shadowed-malformed":
            items.append((a["name"], bad()))
            cli_current()
        elif sc == "shadowed-legal":
            items.append((a["name"], legal()))
            cli_current()
        elif sc == "alias-malformed":
            items.append((a["name"], bad()))
        elif sc == "alias-repeated":
            items += [(a["name"], legal()), (a["name"], legal())]
        else:
            items.append((a["name"], legal()))
    for o in rng.sample(canon, rng.choice([0, 1, 3, 6])):
        ts = [rng.choice(LEGAL[o["ty"]])]
        if o["file"] and rng.random() < 0.6:
            items.append((o["name"], ts))
        elif o["cli"]:
            c.cli.append(dict(kind="L", name=o["name"], toks=[] if o["implicit"] else ts, opt=o["name"]))
    rng.shuffle(items)
    rng.shuffle(c.cli)
    if rng.random() < 0.25:
        c.dflt = items
        c.tags.add("default.cfg")
    else:
        c.cfg = dict(file="run.cfg", state="file", items=items)
        c.cli.insert(rng.randint(0, len(c.cli)), dict(kind="L", name="config", toks=["run.cfg"], opt=inf["cfgopt"]))
    return c


def rename_file(items):
    return [(SPEC_ALIAS.get(n, n), ts) for n, ts in items]


def alias_twin(c):
    """the same invocation with every legacy name of its files replaced by the current name"""
    t = OptCase(c.cid + "t")
    t.cli = [dict(x) for x in c.cli]
    t.stray = list(c.stray)
    t.toks = dict(c.toks)
    t.tags = set(c.tags) | {"twin"}
    t.tags.discard("alias")
    if c.dflt is not None:
        t.dflt = rename_file(c.dflt)
    if c.cfg is not None:
        t.cfg = dict(c.cfg)
        t.cfg["items"] = rename_file(c.cfg["items"])
    return t


def has_legacy(c):
    return any(n in SPEC_ALIAS for f in file_lists(c) for n, _ in f)


def file_lists(c):
    fl = []
    if c.dflt is not None:
        fl.append(c.dflt)
    if c.cfg is not None and c.cfg["state"] == "file":
        fl.append(c.cfg["items"])
    return fl


def twin_conditions(c):
    """(no_double, no_shadowed) of alias_equivalence, required of every file of the case (the loaded one is among them)"""
    cli_opts = set()
    for x in c.cli:
        o = spec_resolve(x["name"], x["kind"])
        if o is not None:
            cli_opts.add(o["name"])
    nd = ns = True
    for f in file_lists(c):
        names = set(n for n, _ in f)
        for a, cn in SPEC_ALIAS.items():
            if a in names and cn in names:
                nd = False
            if a in names and cn in cli_opts:
                ns = False
    return nd, ns


def twin_statement(who, st, st2, vars1, vars2, nd, ns):
    """the statement of alias_equivalence on one pair of outcomes; -> None or a description of what fails"""
    if not nd:
        return None
    if st == "run" and st2 != "run":
        return "%s: the invocation runs with legacy names but is %s with the current names in their place" % (who, st2)
    if (st == "stop") != (st2 == "stop"):
        return "%s: one of the two invocations stops, the other does not (%s / %s)" % (who, st, st2)
    if st2 == "fail" and st != "fail":
        return "%s: the invocation fails with the current names but is %s with the legacy names" % (who, st)
    if ns and st != st2:
        return "%s: status %s with legacy names, %s with the current names (no legacy line is overridden by the command line)" % (who, st, st2)
    if st == "run" and st2 == "run":
        for k, v in vars1.items():
            if k in UNINIT or v is None or k not in vars2:
                continue
            if not same(v, vars2[k]):
                return "%s: %s = %r with legacy names, %r with the current names" % (who, k, v, vars2[k])
    return None


def oracle_alias_twin(ctx, c, res, t, rest):
    """legacy names in a config file act exactly like their current names (C20): the implementation's outcome on the case and
    on its twin, judged by the statement of alias_equivalence.  -> (ok, model_disagreement or None)"""
    nd, ns = twin_conditions(c)
    i, i2 = res["impl"], rest["impl"]
    bad = twin_statement("implementation", status(i), status(i2), impl_vars(i) if status(i) == "run" else {},
                         impl_vars(i2) if status(i2) == "run" else {}, nd, ns)
    if bad:
        ctx.violation("impl-oracle", "legacy names do not act like the current names - " + bad, case=c.replay(),
                      observed=dict(status=status(i), status_renamed=status(i2)), expected="same outcome",
                      sig=dict(kind="options", clause="alias-equivalence"))
    ctx.case_done(("twin", c.cid), nd)
    ctx.count("twin-judged" if nd else "twin-both-names")
    if nd and not ns:
        ctx.count("twin-shadowed")
    # the theorem, on the extracted model's own output (a disagreement is a defect of the machinery, reported as such)
    m, m2 = res["model"], rest["model"]
    md = None
    if m is not None and m2 is not None:
        md = twin_statement("model", status(m), status(m2), model_vars(c, m) if status(m) == "run" else {},
                            model_vars(t, m2) if status(m2) == "run" else {}, nd, ns)
    return (bad is None, md)


def gen_override(ctx, cid):
    """a legal invocation whose saved file is re-read with extra command-line options: `inovesa <extra> --config saved.cfg`"""
    rng = ctx.rng
    inf = info()
    tab = inf["table"]
    c = gen_case(ctx, cid, rng.choice(["legal", "alias", "short"]))
    cand = [o for o in tab.values() if o["kind"] == "KCanon" and o["cli"] and o["ty"] != "TFlag" and o["name"] != inf["cfgopt"]]
    given = [tab[x["opt"]] for x in c.cli if x.get("opt") in tab and tab[x["opt"]] in cand]
    pick = rng.sample(cand, rng.randint(1, 3))
    if given and rng.random() < 0.6:
        pick.append(rng.choice(given))          # override something the original invocation gave
    if rng.random() < 0.3:
        pick += [o for o in cand if o["name"] in ("SynchrotronFrequency", "alpha0")][:rng.randint(1, 2)]
    seen = set()
    for o in pick:
        if o["name"] in seen:
            continue
        seen.add(o["name"])
        pool = LEGAL[o["ty"]]
        ts = [rng.choice(pool) for _ in range(rng.randint(1, 3))] if o["ty"] == "TVecFloat" else [rng.choice(pool)]
        if o["ty"] == "TString" and ts[0].startswith("-"):
            ts = ["x"]
        k = "S" if o["short"] and rng.random() < 0.4 else "L"
        c.xcli.append(dict(kind=k, name=o["short"] if k == "S" else o["name"], toks=ts, opt=o["name"]))
    c.tags.add("reload-override")
    return c


# ------------------------------------------------------------------------------------ strings and the text of a configuration file

WS = " \t\r\n"
# values a line `name=value` can hold (cfg_representable of Model/CfgText.v): inner blanks and tabs, quotes, '=', backslashes ...
STR_KEPT = ["scan 01/run.h5", "my results/a b c.hdf5", "x\ty.h5", 'q"uote".h5', "it's.h5", "a=b.h5", "k=v=w.txt", "back\\slash.h5",
            "sp  ace.dat", "(1) copy.h5", "[sec].h5", "semi;colon.h5", '"all quoted.h5"', "a = b"]
# ... and values it cannot hold: white space at either end is trimmed, '#' starts a comment
STR_LOST = [" lead.h5", "trail.h5 ", "\ttab-lead.h5", "tab-trail.h5\t", "run#3.h5", "#hash.h5", "a #b.h5", "  both  ", "cr-trail.h5\r"]


def representable(v):
    """Python mirror of cfg_representable (compared with the extracted function on every string of a run)"""
    return "#" not in v and "\n" not in v and (v == "" or (v[0] not in WS and v[-1] not in WS))


def hexs(s):
    return s.encode("utf-8", "surrogateescape").hex() or "-"


def unhex(h):
    return "" if h == "-" else bytes.fromhex(h).decode("utf-8", "surrogateescape")


def text_model(queries):
    """the extracted text model (family cfgtext).  queries: ("reread", id, name, value) | ("file", id, text)
    -> {id: dict(back=None | [(name, value)], repr=bool, written=str)} / {id: dict(items=None | [(name, value)])}"""
    if not queries:
        return {}
    txt = "".join("reread %s %s %s\n" % (q[1], hexs(q[2]), hexs(q[3])) if q[0] == "reread" else "file %s %s\n" % (q[1], hexs(q[2]))
                  for q in queries)
    rc, out, err = run_driver(vp_coq.model_path("cfgtext"), txt, timeout=300)
    if rc != 0:
        raise RuntimeError("model_cfgtext: rc=%d %s" % (rc, err[-500:]))
    res = {}

    def pairs(p):
        if p[0] == "none":
            return None
        return [(unhex(p[1 + 2 * k]), unhex(p[2 + 2 * k])) for k in range(int(p[0]))]
    for cid, r in parse_cases(out).items():
        if "back" in r:
            res[cid] = dict(back=pairs(r["back"][0]), repr=r["repr"][0][0] == "1", written=unhex(r["written"][0][0]))
        else:
            res[cid] = dict(items=pairs(r["items"][0]))
    return res


def string_opts():
    inf = info()
    return [o for o in inf["table"].values() if o["kind"] == "KCanon" and o["ty"] == "TString" and o["name"] != inf["cfgopt"]]


def gen_stringy(ctx, cid):
    """a small legal invocation plus 1-3 string options whose values have blanks, tabs, quotes, '=', backslashes (kept by a
    config-file line) or white space at an end / a '#' (not kept): on the command line, or - kept values only - in the parent
    configuration file, decorated with the white space and comments boost's reader drops"""
    rng = ctx.rng
    inf = info()
    c = gen_case(ctx, cid, "short")
    sopts = string_opts()
    pick = rng.sample(sopts, rng.randint(1, min(3, len(sopts))))
    have_file = c.cfg is not None and c.cfg["state"] == "file"
    for o in pick:
        c.cli = [x for x in c.cli if x.get("opt") != o["name"]]
        if have_file:
            c.cfg["items"] = [it for it in c.cfg["items"] if it[0] != o["name"]]
        if c.dflt is not None:
            c.dflt = [it for it in c.dflt if it[0] != o["name"]]
        where = rng.choice(["cli", "cli", "cfg"]) if have_file else "cli"
        if where == "cfg":
            v = rng.choice(STR_KEPT)
            c.cfg["items"].append((o["name"], [v]))
            c.cfg.setdefault("decor", {})[str(len(c.cfg["items"]) - 1)] = [
                rng.choice(["", "", " ", "\t", "   "]), rng.choice(["", "", " ", "\t"]), rng.choice(["", "", " ", "  \t"]),
                rng.choice(["", "", " ", "\t", "   # the results", "\t#x=1", " #"])]
            c.tags.add("string-in-file")
        else:
            lost = rng.random() < 0.3
            v = rng.choice(STR_LOST if lost else STR_KEPT)
            k = "S" if o["short"] and rng.random() < 0.4 else "L"
            c.cli.append(dict(kind=k, name=o["short"] if k == "S" else o["name"], toks=[v], opt=o["name"],
                              eq=(k == "L" and rng.random() < 0.3)))
            c.tags.add("string-lost" if lost else "string-kept")
    c.tags.add("stringy")
    return c


# ------------------------------------------------------------------------------------ property oracles (on the implementation)

def spec_resolve(name, kind):
    """the option a command-line spelling denotes: exact name, one-letter name, or unique prefix"""
    tab = info()["table"]
    # legacy and ignored names are accepted in a config file only (property text), whatever the constructor composes
    cl = [o for o in tab.values() if o["cli"] and o["kind"] in ("KCanon", "KFlag")]
    if kind == "S":
        m = [o for o in cl if o["short"] == name]
        return m[0] if len(m) == 1 else None
    m = [o for o in cl if o["name"] == name]
    if m:
        return m[0]
    m = [o for o in cl if o["name"].startswith(name)]
    return m[0] if len(m) == 1 else None


def spec_expect(c):
    """What the property statement (C20) asks for, computed from the case alone.
    -> ('fail', why) | ('stop', why) | ('run', {var: value}, notes)"""
    inf = info()
    tab = inf["table"]
    if c.stray:
        return ("fail", "stray-positional")
    cli = {}
    flags = False
    for x in c.cli:
        o = spec_resolve(x["name"], x["kind"])
        if o is None:
            return ("fail", "unknown-cli")
        if o["ty"] == "TFlag":
            flags = True
            continue
        if o["name"] in cli and o["ty"] != "TVecFloat":
            return ("fail", "repeat-cli")
        ts = x["toks"]
        if not ts and o["implicit"]:
            ts = ["1"]
        if not ts or any(spec_malformed(o["ty"], t) for t in ts):
            return ("fail", "neg-unsigned" if any(value(o["ty"], t) is not None for t in ts) and ts else "bad-cli")
        cli.setdefault(o["name"], [])
        cli[o["name"]] += ts
    if flags:
        return ("stop", "flag")
    items = None
    if inf["cfgopt"] in cli:
        if c.cfg["state"] == "missing":
            return ("stop", "missing-config")
        if c.cfg["state"] == "file":
            items = c.cfg["items"]
    elif c.dflt is not None:
        items = c.dflt
    cfg = {}
    names = {}
    both = False
    for n, ts in (items or []):
        o = tab.get(n)
        if n in SPEC_ALIAS and SPEC_ALIAS[n] in tab:
            key, ty = SPEC_ALIAS[n], tab[SPEC_ALIAS[n]]["ty"]      # a legacy name of the property, whatever the table says
        elif o is None or not o["file"]:
            return ("fail", "unknown-cfg")
        else:
            key, ty = (o["canon"] if o["kind"] == "KAlias" else n), o["ty"]
        if n in cli:
            continue            # same name on the command line: the value is never converted nor used (explored boundary, docs/built/C20.md)
        if any(spec_malformed(ty, t) for t in ts):
            return ("fail", "neg-unsigned" if all(value(ty, t) is not None for t in ts) else "bad-cfg")
        seen = names.setdefault(key, [])
        if seen and ty != "TVecFloat":
            if n in seen:
                return ("fail", "repeat-cfg")
            both = True             # legacy and current name in one file: the statement does not say (the model: the
                                    # current name wins, the legacy line is converted all the same - both_names_current_wins)
        seen.append(n)
        if key in cli:
            continue            # legacy name, current name on the command line: converted (checked above) but not used
        cfg.setdefault(key, [])
        cfg[key] += ts
    exp = {}
    for o in tab.values():
        if o["kind"] != "KCanon" or o["ty"] == "TFlag":
            continue
        n = o["name"]
        g = label_of(o)             # the getter the option is documented to feed, not the member the table names
        if n in cli:
            ts = cli[n]
        elif n in cfg:
            ts = cfg[n]
        else:
            d = o["defcli"] if o["cli"] else o["deffile"]
            exp[g] = default_value(o["ty"], d) if d is not None else init_value(o["var"], o["ty"])
            continue
        vs = [value(o["ty"], t) for t in ts]
        exp[g] = vs if o["ty"] == "TVecFloat" else vs[0]
    lbl = var_labels()
    for v in (lbl.get(v, v) for k, v in inf["prog"]["tail"] if k == "devnull"):
        if exp.get(v) == "/dev/null":
            exp[v] = ""
    return ("run", exp, dict(both=both))


NO_GETTER = {"_glversion", "_showphasespace"}     # OpenGL-only members: no getter in this build (DESIGN 4: not compiled)


def oracle_c20(ctx, c, res):
    """the C20 statement evaluated on the implementation's output alone"""
    i = res["impl"]
    exp = spec_expect(c)
    st = status(i)
    msg = unesc(i["message"][0][0]) if i.get("message") and i["message"][0] else ""
    if exp[0] != st:
        if exp[0] == "fail":
            what = "input that the property calls invalid (%s) does not stop the program: status %s" % (exp[1], st)
            sig = dict(kind="options", clause="error-stops", why=exp[1])
        elif exp[0] == "stop":
            what = "program does not stop (%s): status %s" % (exp[1], st)
            sig = dict(kind="options", clause="stop", why=exp[1])
        else:
            what = "legal input is not accepted: status %s (%s)" % (st, msg[:100])
            sig = dict(kind="options", clause="legal-rejected")
        ctx.violation("impl-oracle", what, case=c.replay(), observed=dict(status=st, message=msg[:200]),
                      expected=exp[0], sig=sig)
        return False
    if st != "run":
        ctx.case_done(("c20", c.cid), True)
        return True
    if exp[2]["both"]:
        return True
    iv = impl_vars(i)
    ok = True
    for k, v in exp[1].items():
        if k in NO_GETTER or k in UNINIT or k not in iv or v is None:
            continue
        if not same(v, iv[k]):
            ali = "alias-in-cfg-canonical-on-cli" in c.tags
            ctx.violation("impl-oracle", "effective value of %s is not command line > config file > default" % k,
                          case=c.replay(), observed={k: iv[k]}, expected={k: v},
                          sig=dict(kind="options", clause="precedence", alias_in_cfg_and_canonical_on_cli=ali))
            ok = False
            break
    ctx.case_done(("c20", c.cid), len(c.cli) + len(c.dflt or []) + len((c.cfg or {}).get("items", [])) > 0)
    return ok


def oracle_c13(ctx, c, res):
    """save -> parse --config saved -> every getter as before (C13), on the implementation alone"""
    i = res["impl"]
    if status(i) != "run":
        return True
    if status(i, "r") != "run":
        msg = unesc(i["rmessage"][0][0]) if i.get("rmessage") and i["rmessage"][0] else ""
        ctx.violation("impl-oracle", "the saved configuration is not accepted: %s (%s)" % (status(i, "r"), msg[:120]),
                      case=c.replay(), observed=dict(saved=res["saved"]), expected="run",
                      sig=dict(kind="roundtrip", clause="reload-status"))
        return False
    a, b = impl_vars(i), impl_vars(i, "r")
    cfgvar = info()["prog"]["cfgvar"]
    ok = True
    for k, v in a.items():
        if k == cfgvar or k in NO_GETTER or k in ignored_vars():
            continue
        if k == "_forcerun":
            continue      # run_anyway is deliberately not saved; it cannot matter once an output file is given (main.cpp:109)
        if k == "alpha0" and a.get("f_s") != 0:
            continue      # not used by main when the synchrotron frequency is given (main.cpp:231-236)
        if not same(v, b.get(k)):
            cause = ("string-not-representable" if isinstance(v, str) and not representable(v) else
                     "alpha0-zeroed" if k == "alpha0" else "vector-not-saved" if k == "I_b" else
                     "alias-dropped" if "alias" in c.tags and k in ("V_RF", "steps_per_Ts", "f_s") else "value-changed")
            ctx.violation("impl-oracle", "%s differs after save and reload (%s)" % (k, cause), case=c.replay(),
                          observed={k: b.get(k)}, expected={k: v}, sig=dict(kind="roundtrip", var=k, cause=cause))
            ok = False
    if getattr(c, "xcli", None):
        ok = oracle_override(ctx, c, res, a) and ok
    nontriv = any(not same(a[k], d) for k, d in default_vars().items() if k in a)
    ctx.case_done(("c13", c.cid), nontriv)
    return ok


def oracle_override(ctx, c, res, a):
    """`inovesa <extra options> --config saved.cfg`: the extra options take their command-line values, every other getter
    is as after the original invocation (C13 with C20's precedence)"""
    i = res["impl"]
    tab = info()["table"]
    if not i.get("xstatus") or status(i, "x") != "run":
        msg = unesc(i["xmessage"][0][0]) if i.get("xmessage") and i["xmessage"][0] else ""
        ctx.violation("impl-oracle", "the saved configuration is not accepted together with %s: %s (%s)" %
                      (c.xargv(), status(i, "x") if i.get("xstatus") else "no output", msg[:120]), case=c.replay(),
                      observed=dict(saved=res["saved"]), expected="run", sig=dict(kind="roundtrip", clause="reload-override-status"))
        return False
    b = impl_vars(i, "x")
    over = {}
    for x in c.xcli:
        o = tab[x["opt"]]
        vs = [value(o["ty"], t) for t in x["toks"]]
        over[label_of(o)] = vs if o["ty"] == "TVecFloat" else vs[0]
    cfgvar = info()["prog"]["cfgvar"]
    lbl = var_labels()
    devnull = set(lbl.get(v, v) for kk, v in info()["prog"]["tail"] if kk == "devnull")
    ok = True
    for k, v in a.items():
        if k == cfgvar or k in NO_GETTER or k in ignored_vars() or k == "_forcerun":
            continue
        if k in over:
            v = over[k]
            if v == "/dev/null" and k in devnull:
                v = ""            # glue: parse() clears these members after the stores
        elif k == "alpha0" and (a.get("f_s") != 0):
            continue      # written as 0 by design when a synchrotron frequency is in force
        if not same(v, b.get(k)):
            ctx.violation("impl-oracle", "%s after re-reading the saved file with %s: %r, expected %r" % (k, c.xargv(), b.get(k), v),
                          case=c.replay(), observed={k: b.get(k)}, expected={k: v},
                          sig=dict(kind="roundtrip", var=k, cause="reload-override"))
            ok = False
    ctx.count("reload-override-judged")
    return ok


def ignored_vars():
    return set(o["var"] for o in info()["table"].values() if o["kind"] == "KIgnored")


_dv = None


def default_vars():
    global _dv
    if _dv is None:
        _dv = {}
        for o in info()["table"].values():
            if o["kind"] == "KCanon" and o["ty"] != "TFlag":
                d = o["defcli"] if o["cli"] else o["deffile"]
                _dv[o["var"]] = default_value(o["ty"], d) if d is not None else init_value(o["var"], o["ty"])
    return _dv


# ------------------------------------------------------------------------------------ the documented defaults (--help)
HELP_RE = re.compile(r"^\s+(?:-(\w) \[ --(\w+) \]|--(\w+))\s+(?:arg|\[=arg\(=[^)]*\)\])(?:\s+\(=(.*?)\))?(?:\s{2,}.*)?$")


def documented_defaults(help_text):
    """{long name: default as printed by --help} ("else the documented default" of C20 is this text)"""
    res = {}
    for line in help_text.splitlines():
        m = HELP_RE.match(line)
        if m and m.group(4) is not None:
            res[m.group(2) or m.group(3)] = m.group(4)
    return res


def oracle_doc_defaults(ctx, tg):
    """The default that --help documents for an option against the value its getter returns when nothing is given
    (no argument, no ./default.cfg).  They can differ: default_value(v, "text") prints the text."""
    wd = tempfile.mkdtemp(prefix="vhelp", dir=os.path.join(VERIF, ".cache"))
    try:
        r = subprocess.run(["timeout", "20", tg["inovesa"], "--help"], cwd=wd, capture_output=True, text=True,
                           env=vp_build.xdg_env())
    finally:
        shutil.rmtree(wd, ignore_errors=True)
    docs = documented_defaults(r.stdout)
    c = OptCase("nodefault")
    c.raw_argv = ["inovesa"]
    res = run_cases(ctx, [c], tg)
    i = res[c.cid]["impl"]
    if r.returncode != 0 or not docs or i is None or status(i) != "run":
        ctx.violation("impl-oracle", "`inovesa --help` / `inovesa` without arguments do not behave as documented",
                      case=c.replay_raw(), observed=dict(rc=r.returncode, documented=len(docs)), expected="run",
                      sig=dict(kind="options", clause="documented-default", option=None))
        return
    iv = impl_vars(i)
    tab = info()["table"]
    judged = 0
    for name, txt in sorted(docs.items()):
        o = tab.get(name)
        if o is None or o["ty"] == "TFlag":
            continue
        g = label_of(o)
        if g in NO_GETTER or g in UNINIT or g not in iv:
            continue
        v = value(o["ty"], txt)
        if v is None and txt == "(ignore)":
            v = 0          # "will overwrite alpha0 when set to a value different from 0": ignored = 0
        if v is None:
            ctx.count("documented-default-not-a-value")
            continue
        judged += 1
        if not same(v, iv[g]):
            ctx.violation("impl-oracle", "--help documents the default %s for %s, but without any option its value is %r" % (txt, name, iv[g]),
                          case=c.replay_raw(), observed={g: iv[g]}, expected={g: v},
                          sig=dict(kind="options", clause="documented-default", option=name))
    ctx.count("documented-defaults", judged)
    ctx.case_done(("doc-defaults",), judged > 20)
