"""C17 machinery: inputs of the generated size model (Gen_ScalingZ) for API-level and program-level cases - the double
spacing_ps is obtained by evaluating the expression the translator read from main() (lib/scaling_eval.py), the sizes
by the extracted generated functions -, generators, sanitizer-report parsing."""
import math, os, re, subprocess, struct, tempfile, shutil
from concurrent.futures import ThreadPoolExecutor
from fractions import Fraction
from vp_common import *
import vp_build

C_LIGHT = 2.99792458e8
EPS0 = 8.854187817e-12
QE = 1.602e-19
ME = 510998.9
TWO_PI = 6.283185307179586476925286766559005768e+00

DEFAULTS = dict(GridSize=256, PhaseSpaceSize=12.0, RevolutionFrequency=9e6, HarmonicNumber=50.0,
                BeamEnergy=1.3e9, BeamEnergySpread=4.7e-4, AcceleratingVoltage=1e6, alpha0=4e-3,
                SynchrotronFrequency=0.0, BendingRadius=-1.0, padding=8.0, RoundPadding=1)


def full_config(o):
    """the options a configuration fixes: DEFAULTS overlaid by o.  Every option main()'s spacing_ps depends on is
    passed on the command line (cfg_args), so the program's own defaults never enter"""
    d = dict(DEFAULTS)
    d.update({k: v for k, v in o.items() if not k.startswith("_")})
    d.setdefault("BunchCurrent", [3e-3])
    d["PhaseSpaceSize"] = f32(d["PhaseSpaceSize"])
    for k in ("RevolutionFrequency", "HarmonicNumber", "SynchrotronFrequency", "alpha0"):
        d[k] = f32(d[k])
    return d


def main_spacing_ps(o):
    """spacing_ps as src/main.cpp computes it: double-precision evaluation (lib/scaling_eval.py) of the expression
    translate/scalingz2coq.py read from the current main() for the cut variable of the size model"""
    import scaling_eval
    cv = scaling_eval.cut_values(full_config(o))
    if len(cv) != 1:
        raise RuntimeError("the generated size model has %d cut variables (%s); the C17 generators expect one (spacing_ps)" % (len(cv), sorted(cv)))
    return list(cv.values())[0]


def gen_size_inputs(o):
    """(zs, qs, bs) for Gen_ScalingZ.gen_sizes_list from a program configuration"""
    import scaling_eval
    return scaling_eval.zleaf_inputs(full_config(o))


ROLE = {"O_getGridSize": "n", "N_getBunchCurrents": "nbuckets", "O_getPadding": "padding", "O_getRoundPadding": "roundp"}


def gen_size_inputs_api(n, nbuckets, sps, padding, roundp):
    """the same from bare numbers (API-level cases: no command line behind them)"""
    import scaling_eval
    inf = scaling_eval.info("Gen_ScalingZ")
    vals = dict(n=n, nbuckets=nbuckets, padding=padding, roundp=roundp)

    def val(name):
        if name.startswith("V_"):
            return sps
        if name.endswith("_unused"):
            return 0
        if name not in ROLE:
            raise RuntimeError("the generated size model reads %s, which the API-level generator does not know" % name)
        return vals[ROLE[name]]
    return [int(val(x)) for x in inf["zleaves"]], [float(val(x)) for x in inf["qleaves"]], [1 if val(x) else 0 for x in inf["bleaves"]]


def gsizes_text(cid, zs, qs, bs):
    return "gsizes %s %d %s %d %s %d %s\n" % (cid, len(zs), " ".join("%x" % z for z in zs), len(qs),
                                              " ".join(qtok(Fraction(q)) for q in qs), len(bs), " ".join(str(b) for b in bs))


def gen_sizes_batch(model, items):
    """[(n, nbuckets, sps, padding, roundp)] -> [(spacing_bins, padded, wake_nmax)] through the extracted generated
    functions (-1 = undefined conversion)"""
    if not items:
        return []
    txt = "".join(gsizes_text("g%d" % i, *gen_size_inputs_api(*it)) for i, it in enumerate(items))
    rc, out, err = run_driver(model, txt)
    if rc != 0:
        raise RuntimeError("model_bounds gsizes: " + err[-500:])
    res = parse_cases(out)
    outl = []
    for i in range(len(items)):
        r = [int(t, 16) if t != "-1" else -1 for t in res["g%d" % i]["sizes"][0]]
        outl.append((r[0], r[1], r[2]))
    return outl


# ------------------------------------------------------------------ sanitizer output

REPO_PAT = re.compile(r"#\d+ 0x[0-9a-f]+ in (.+?) (/\S+?):(\d+)")


def enclosing_function(path, line):
    try:
        ls = open(path, errors="replace").read().splitlines()
    except OSError:
        return os.path.basename(path)
    for i in range(min(line, len(ls)) - 1, -1, -1):
        m = re.match(r"^[\w:<>\*&\s]*?\b(vfps::[\w:~]+|main)\s*\(", ls[i])
        if m and not ls[i].startswith((" ", "\t")):
            return m.group(1)
    return os.path.basename(path)


def parse_sanitizer(err, repo):
    """-> None or dict(error=..., where=function, file=basename:line, text=excerpt)"""
    m = re.search(r"ERROR: AddressSanitizer: ([\w-]+)", err)
    if m:
        kind = m.group(1)
        where, floc = "?", "?"
        seg = err[m.start():]
        for fm in REPO_PAT.finditer(seg):
            fn, path, ln = fm.group(1), fm.group(2), int(fm.group(3))
            if path.startswith(repo) and ("/src/" in path or "/inc/" in path):
                # prefer the outermost repo frame of the *first* stack that is not a tiny accessor
                fn = re.sub(r"\(.*$", "", fn).strip()
                if fn.startswith(("vfps::Ruler", "vfps::PhaseSpace::_qp", "vfps::PhaseSpace::p", "vfps::PhaseSpace::q",
                                  "float* std::", "std::")):
                    continue
                where, floc = fn, "%s:%d" % (os.path.basename(path), ln)
                break
            if "harness/" in path:
                break
        if where == "?":
            # accessor-only stack (harness called q()/p() directly)
            for fm in REPO_PAT.finditer(seg):
                fn, path, ln = fm.group(1), fm.group(2), int(fm.group(3))
                if path.startswith(repo):
                    where, floc = re.sub(r"\(.*$", "", fn).strip(), "%s:%d" % (os.path.basename(path), ln)
                    break
        return dict(error=kind, where=where, file=floc, text=seg[:1500])
    m = re.search(r"^(\S+?):(\d+):\d+: runtime error: (.*)$", err, flags=re.M)
    if m:
        path, ln, msg = m.group(1), int(m.group(2)), m.group(3)
        kind = "float-cast-overflow" if "outside the range of representable values" in msg else \
            re.sub(r"[^a-z]+", "-", msg.lower())[:40]
        return dict(error=kind, where=enclosing_function(path, ln), file="%s:%d" % (os.path.basename(path), ln),
                    text=m.group(0))
    m = re.search(r"Assertion `?(.+?)' failed", err)
    if m:
        return dict(error="assertion", where="assert", file="?", text=err[-800:])
    return None


def san_env():
    e = vp_build.xdg_env()
    e["ASAN_OPTIONS"] = "detect_leaks=0:abort_on_error=0:exitcode=77:allocator_may_return_null=1"
    e["UBSAN_OPTIONS"] = "print_stacktrace=0:exitcode=78"
    return e


def run_proc(cmd, text=None, env=None, timeout=60, cwd=None):
    """always under the shell's timeout(1) as well as Python's"""
    try:
        r = subprocess.run(["timeout", "-s", "KILL", str(timeout)] + cmd, input=text, capture_output=True, text=True,
                           env=env, cwd=cwd, timeout=timeout + 10, errors="replace")
        return r.returncode, r.stdout, r.stderr
    except subprocess.TimeoutExpired:
        return 137, "", "timeout"


def pmap(fn, items, workers=14):
    with ThreadPoolExecutor(max_workers=workers) as ex:
        return list(ex.map(fn, items))


# ------------------------------------------------------------------ program-level configurations

def cfg_args(cfg):
    a = ["--run_anyway", "1", "--gui", "0"]
    import scaling_eval
    cfg = dict(cfg)
    fc = full_config(cfg)
    for k in scaling_eval.size_options():         # every option the padded sizes depend on is given explicitly
        cfg.setdefault(k, fc[k])
    for k, v in cfg.items():
        if k.startswith("_"):
            continue
        if k == "BunchCurrent":
            a += ["--BunchCurrent"] + [repr(float(x)) for x in v]
        else:
            a += ["--" + k, (repr(v) if isinstance(v, float) else str(v))]
    return a


def tune_spacing(cfg, target_s):
    """choose BeamEnergySpread (coarse) and PhaseSpaceSize (fine) so that GridSize*spacing_ps ~ target_s"""
    n = cfg["GridSize"]
    base = dict(cfg)
    base["BeamEnergySpread"] = 4.7e-4
    base["PhaseSpaceSize"] = 12.0
    s0 = n * main_spacing_ps(base)
    cfg["BeamEnergySpread"] = 4.7e-4 * s0 / target_s
    s1 = n * main_spacing_ps(cfg | {"PhaseSpaceSize": 12.0})
    cfg["PhaseSpaceSize"] = f32(12.0 * s1 / target_s)
    return n * main_spacing_ps(cfg)


def h5_dims(h5cat, path, only):
    rc, out, err = run_proc([h5cat, path, "--only", only], timeout=30)
    res = {}
    for line in out.splitlines():
        p = line.split()
        if p and p[0] == "dataset":
            rank = int(p[3])
            res[p[1]] = [int(x) for x in p[4:4 + rank]]
    return res


def h5_data(h5cat, path, only):
    rc, out, err = run_proc([h5cat, path, "--values", "--only", only], timeout=30)
    for line in out.splitlines():
        p = line.split()
        if p and p[0] == "data" and p[1] == only:
            return [float.fromhex(x) for x in p[2:]]
    return None
