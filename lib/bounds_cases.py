"""C17 machinery: a Python replica of main.cpp's double arithmetic for the padded sizes (used
only to *generate* configurations and to feed the model the same spacing_ps the program
computes), generators of API-level and program-level cases, sanitizer-report parsing."""
import math, os, re, subprocess, struct, tempfile, shutil
from concurrent.futures import ThreadPoolExecutor
from fractions import Fraction
from vp_common import *
import vp_build

C_LIGHT = 2.99792458e8
EPS0 = 8.854187817e-12
QE = 1.602e-19
ME = 510998.9
TWO_PI = 6.283185307179586476925286766559005768e+00

DEFAULTS = dict(GridSize=256, PhaseSpaceSize=12.0, RevolutionFrequency=9e6, HarmonicNumber=50.0,
                BeamEnergy=1.3e9, BeamEnergySpread=4.7e-4, AcceleratingVoltage=1e6, alpha0=4e-3,
                SynchrotronFrequency=0.0, BendingRadius=-1.0, padding=8.0, RoundPadding=1)


def main_spacing_ps(o):
    """spacing_ps exactly as src/main.cpp computes it (all in double; float options promoted)"""
    d = dict(DEFAULTS)
    d.update(o)
    pqsize = f32(d["PhaseSpaceSize"])
    sE, E0 = float(d["BeamEnergySpread"]), float(d["BeamEnergy"])
    dE = sE * E0
    f_rev = float(f32(d["RevolutionFrequency"]))
    R_bend = d["BendingRadius"] if d["BendingRadius"] > 0 else C_LIGHT / (TWO_PI * f_rev)
    H = float(f32(d["HarmonicNumber"]))
    f_RF = f_rev * H
    bunchspacing = 1.0 / f_RF
    V_RF = float(d["AcceleratingVoltage"])
    gamma = E0 / ME
    V0 = QE * math.pow(gamma, 4) / (3 * EPS0 * R_bend)
    V_eff = math.sqrt(V_RF * V_RF - V0 * V0)
    fs = float(f32(d["SynchrotronFrequency"]))
    a0 = float(f32(d["alpha0"]))
    if fs == 0.0:
        fs = f_rev * math.sqrt(a0 * H * V_eff / (TWO_PI * E0))
    bl = C_LIGHT * dE / H / math.pow(f_rev, 2.0) / V_eff * fs
    return bunchspacing * C_LIGHT / bl / pqsize


def py_round(x):
    return math.floor(x + 0.5) if x >= 0 else -math.floor(-x + 0.5)


def main_sizes_double(n, nbuckets, sps, padding, roundp, pinned=False):
    """the program's own double evaluation (std::round / std::ceil of double products)"""
    def upt(v):
        v = (v - 1) & (2 ** 64 - 1)
        for s in (1, 2, 4, 8, 16, 32):
            v |= v >> s
        return (v + 1) & (2 ** 64 - 1)
    sp = py_round(n * sps)
    padded = math.ceil(n * max(padding, 1.0))
    spaced = math.ceil(((n * nbuckets) & 0xffffffff) * sps)
    if not pinned:      # fix 899923d: room for the last bucket's block
        spaced = max(spaced, ((((nbuckets - 1) & 0xffffffff) * sp + n) & (2 ** 64 - 1)))
    if roundp:
        padded, spaced = upt(padded), upt(spaced)
    return sp, padded, spaced, (spaced if nbuckets > 1 else padded)


# ------------------------------------------------------------------ sanitizer output

REPO_PAT = re.compile(r"#\d+ 0x[0-9a-f]+ in (.+?) (/\S+?):(\d+)")


def enclosing_function(path, line):
    try:
        ls = open(path, errors="replace").read().splitlines()
    except OSError:
        return os.path.basename(path)
    for i in range(min(line, len(ls)) - 1, -1, -1):
        m = re.match(r"^[\w:<>\*&\s]*?\b(vfps::[\w:~]+|main)\s*\(", ls[i])
        if m and not ls[i].startswith((" ", "\t")):
            return m.group(1)
    return os.path.basename(path)


def parse_sanitizer(err, repo):
    """-> None or dict(error=..., where=function, file=basename:line, text=excerpt)"""
    m = re.search(r"ERROR: AddressSanitizer: ([\w-]+)", err)
    if m:
        kind = m.group(1)
        where, floc = "?", "?"
        seg = err[m.start():]
        for fm in REPO_PAT.finditer(seg):
            fn, path, ln = fm.group(1), fm.group(2), int(fm.group(3))
            if path.startswith(repo) and ("/src/" in path or "/inc/" in path):
                # prefer the outermost repo frame of the *first* stack that is not a tiny accessor
                fn = re.sub(r"\(.*$", "", fn).strip()
                if fn.startswith(("vfps::Ruler", "vfps::PhaseSpace::_qp", "vfps::PhaseSpace::p", "vfps::PhaseSpace::q",
                                  "float* std::", "std::")):
                    continue
                where, floc = fn, "%s:%d" % (os.path.basename(path), ln)
                break
            if "harness/" in path:
                break
        if where == "?":
            # accessor-only stack (harness called q()/p() directly)
            for fm in REPO_PAT.finditer(seg):
                fn, path, ln = fm.group(1), fm.group(2), int(fm.group(3))
                if path.startswith(repo):
                    where, floc = re.sub(r"\(.*$", "", fn).strip(), "%s:%d" % (os.path.basename(path), ln)
                    break
        return dict(error=kind, where=where, file=floc, text=seg[:1500])
    m = re.search(r"^(\S+?):(\d+):\d+: runtime error: (.*)$", err, flags=re.M)
    if m:
        path, ln, msg = m.group(1), int(m.group(2)), m.group(3)
        kind = "float-cast-overflow" if "outside the range of representable values" in msg else \
            re.sub(r"[^a-z]+", "-", msg.lower())[:40]
        return dict(error=kind, where=enclosing_function(path, ln), file="%s:%d" % (os.path.basename(path), ln),
                    text=m.group(0))
    m = re.search(r"Assertion `?(.+?)' failed", err)
    if m:
        return dict(error="assertion", where="assert", file="?", text=err[-800:])
    return None


def san_env():
    e = vp_build.xdg_env()
    e["ASAN_OPTIONS"] = "detect_leaks=0:abort_on_error=0:exitcode=77:allocator_may_return_null=1"
    e["UBSAN_OPTIONS"] = "print_stacktrace=0:exitcode=78"
    return e


def run_proc(cmd, text=None, env=None, timeout=60, cwd=None):
    """always under the shell's timeout(1) as well as Python's"""
    try:
        r = subprocess.run(["timeout", "-s", "KILL", str(timeout)] + cmd, input=text, capture_output=True, text=True,
                           env=env, cwd=cwd, timeout=timeout + 10, errors="replace")
        return r.returncode, r.stdout, r.stderr
    except subprocess.TimeoutExpired:
        return 137, "", "timeout"


def pmap(fn, items, workers=14):
    with ThreadPoolExecutor(max_workers=workers) as ex:
        return list(ex.map(fn, items))


# ------------------------------------------------------------------ program-level configurations

def cfg_args(cfg):
    a = ["--run_anyway", "1", "--gui", "0"]
    for k, v in cfg.items():
        if k.startswith("_"):
            continue
        if k == "BunchCurrent":
            a += ["--BunchCurrent"] + [repr(float(x)) for x in v]
        else:
            a += ["--" + k, (repr(v) if isinstance(v, float) else str(v))]
    return a


def tune_spacing(cfg, target_s):
    """choose BeamEnergySpread (coarse) and PhaseSpaceSize (fine) so that GridSize*spacing_ps ~ target_s"""
    n = cfg["GridSize"]
    base = dict(cfg)
    base["BeamEnergySpread"] = 4.7e-4
    base["PhaseSpaceSize"] = 12.0
    s0 = n * main_spacing_ps(base)
    cfg["BeamEnergySpread"] = 4.7e-4 * s0 / target_s
    s1 = n * main_spacing_ps(cfg | {"PhaseSpaceSize": 12.0})
    cfg["PhaseSpaceSize"] = f32(12.0 * s1 / target_s)
    return n * main_spacing_ps(cfg)


def h5_dims(h5cat, path, only):
    rc, out, err = run_proc([h5cat, path, "--only", only], timeout=30)
    res = {}
    for line in out.splitlines():
        p = line.split()
        if p and p[0] == "dataset":
            rank = int(p[3])
            res[p[1]] = [int(x) for x in p[4:4 + rank]]
    return res


def h5_data(h5cat, path, only):
    rc, out, err = run_proc([h5cat, path, "--values", "--only", only], timeout=30)
    for line in out.splitlines():
        p = line.split()
        if p and p[0] == "data" and p[1] == only:
            return [float.fromhex(x) for x in p[2:]]
    return None
