"""C05, explored part: the long-run stationary state satisfies the (discrete) Haissinski equation.

PLACEHOLDER HEADER - rewritten once the measurements are in.
"""
import math, os, subprocess, sys, time

sys.path.insert(0, os.path.dirname(os.path.abspath(__file__)))
import vp_build

TWO_PI = 2.0 * math.pi
CORE_FRACTION = 0.01


# ------------------------------------------------------------------------------------ running

def _pow2_ceil(v):
    p = 1
    while p < v:
        p *= 2
    return p


def padded_bins(n, padding=8.0, round_padding=True):
    """main.cpp: padded_bins = ceil(n*max(padding,1)), rounded up to a power of two by default."""
    v = int(math.ceil(n * max(float(padding), 1.0)))
    return _pow2_ceil(v) if round_padding else v


def write_const_impedance(path, nfreqs, re_ohm, im_ohm=0.0):
    """Impedance::readData: whitespace separated `lineno real imag` triples, one entry per new lineno.
    The factory adds the file entry-wise to an `nfreqs` long vector and does not check the length
    (a shorter file is over-read), so twice the needed number of (constant) entries is written."""
    with open(path, "w") as f:
        for i in range(2 * nfreqs):
            f.write("%d %.9g %.9g\n" % (i, re_ohm, im_ohm))


def laststep_of(cfg):
    # main.cpp: rotations is cast to float, steps is a double, laststep = ceil(steps*rotations)
    return int(math.ceil(float(cfg["steps"]) * float(cfg["rotations"])))


def build_cmd(tg, cfg, workdir, tag="run"):
    n = int(cfg["n"])
    steps = int(cfg["steps"])
    kind = cfg["kind"]
    opts = dict(cfg.get("opts", {}))
    out = os.path.join(workdir, tag + ".h5")
    laststep = laststep_of(cfg)
    # three records only: step 0, step laststep-gap (in the loop) and the final one.  The gap is a
    # non-integer number of synchrotron periods so that a surviving coherent oscillation shows up
    # as non-stationarity instead of being sampled at equal phase.
    gap = int(cfg.get("gap_steps", int(round(float(cfg.get("gap_periods", 2.37)) * steps))))
    gap = max(1, min(gap, laststep // 2 - 1 if laststep > 3 else 1))
    outstep = laststep - gap
    cmd = [tg["inovesa"], "--gui", "0", "-s", str(n), "-N", str(steps),
           "-T", repr(float(cfg["rotations"])), "-I", repr(float(cfg["current"])),
           "-o", out, "-n", str(outstep)]
    if cfg.get("damping_time") is not None:
        cmd += ["-d", repr(float(cfg["damping_time"]))]
    gapm = float(cfg.get("vacuum_gap", 0.03))
    if kind == "csr-pp":
        cmd += ["-G", repr(abs(gapm)), "--UseCSR", "1"]
    elif kind == "csr-fs":
        cmd += ["-G", repr(-abs(gapm)), "--UseCSR", "1"]
    elif kind == "resistive-wall":
        cmd += ["-G", repr(abs(gapm)), "--UseCSR", "0",
                "--WallConductivity", repr(float(cfg["conductivity"]))]
    elif kind == "collimator":
        cmd += ["-G", repr(abs(gapm)), "--UseCSR", "0",
                "--CollimatorRadius", repr(float(cfg["collimator_radius"]))]
    elif kind == "const-file":
        zf = os.path.join(workdir, tag + ".Z.txt")
        nf = padded_bins(n, float(opts.get("padding", 8.0)), bool(int(opts.get("RoundPadding", 1))))
        write_const_impedance(zf, nf, float(cfg["ohm"]), float(cfg.get("ohm_imag", 0.0)))
        cmd += ["-G", "0", "-Z", zf]
    elif kind == "none":
        cmd += ["-G", "0"]
    else:
        raise ValueError("unknown impedance kind %r" % (kind,))
    for k in sorted(opts):
        cmd += [("-" if len(k) == 1 else "--") + k, str(opts[k])]
    return cmd, out, outstep


def _h5_data(h5cat, path, names, timeout_s=60):
    cmd = ["timeout", str(int(timeout_s)), h5cat, path, "--values"]
    for nm in names:
        cmd += ["--only", nm]
    r = subprocess.run(cmd, capture_output=True, text=True)
    if r.returncode != 0:
        raise RuntimeError("h5cat failed (%d): %s" % (r.returncode, (r.stdout + r.stderr)[-400:]))
    shapes, data, attrs = {}, {}, {}
    for ln in r.stdout.splitlines():
        if ln.startswith("dataset "):
            t = ln.split()
            rank = int(t[3])
            shapes[t[1]] = [int(x) for x in t[4:4 + rank]]
        elif ln.startswith("data "):
            t = ln.split()
            data[t[1]] = [float.fromhex(x) if x[:1] in "-0" and "x" in x else float(x) for x in t[2:]]
        elif ln.startswith("attr /Info/Parameters ") or ln.startswith("attr /WakePotential/data "):
            t = ln.split()
            if t[3] in ("f32", "f64"):
                attrs[t[1] + "@" + t[2]] = float.fromhex(t[5])
            elif t[3] in ("u32", "i32", "u64", "i64"):
                attrs[t[1] + "@" + t[2]] = int(t[5])
    return shapes, data, attrs


def run_config(tg, cfg, workdir, timeout_s=300, tag=None, keep=False):
    """Runs one configuration to its end and returns the last records.  Raises RuntimeError when the
    binary fails / times out or the file does not have the expected shape."""
    os.makedirs(workdir, exist_ok=True)
    tag = tag or cfg.get("name", "run")
    cmd, out, outstep = build_cmd(tg, cfg, workdir, tag)
    for p in (out, out + ".cfg", out + ".log"):
        if os.path.exists(p):
            os.remove(p)
    t0 = time.time()
    r = subprocess.run(["timeout", "-k", "5", str(int(timeout_s))] + cmd, capture_output=True, text=True,
                       env=vp_build.xdg_env(), cwd=workdir)
    wall = time.time() - t0
    if r.returncode != 0 or not os.path.exists(out):
        raise RuntimeError("inovesa failed rc=%d after %.1fs: %s" % (r.returncode, wall, (r.stdout + r.stderr)[-600:]))
    if "Finished." not in r.stdout:
        raise RuntimeError("inovesa did not finish: %s" % r.stdout[-600:])
    names = ["/BunchProfile/data", "/WakePotential/data", "/EnergySpread/data", "/Info/AxisValues_z",
             "/Info/AxisValues_t", "/BunchPopulation/data", "/BunchLength/data", "/BunchPosition/data"]
    shapes, data, attrs = _h5_data(tg["h5cat"], out, names)
    n = int(cfg["n"])
    nrec = shapes["/BunchProfile/data"][0]
    if shapes["/BunchProfile/data"][1:] != [1, n] or shapes["/WakePotential/data"] != [nrec, 1, n] or nrec < 2:
        raise RuntimeError("unexpected shapes %r" % (shapes,))
    bp = data["/BunchProfile/data"]
    wp = data["/WakePotential/data"]
    rho = bp[(nrec - 1) * n:nrec * n]
    rho_prev = bp[(nrec - 2) * n:(nrec - 1) * n]
    W = wp[(nrec - 1) * n:nrec * n]
    W_prev = wp[(nrec - 2) * n:(nrec - 1) * n]
    es = data["/EnergySpread/data"]
    q = data["/Info/AxisValues_z"]
    pss = float(attrs.get("/Info/Parameters@PhaseSpaceSize", cfg.get("opts", {}).get("PhaseSpaceSize", 12.0)))
    dq = pss / (n - 1)
    steps = int(cfg["steps"])
    mx = max(rho)
    core = [i for i in range(n) if rho[i] > CORE_FRACTION * mx]
    stat = max(abs(a - b) for a, b in zip(rho, rho_prev)) / mx
    stat_core = max(abs(rho[i] - rho_prev[i]) / rho[i] for i in core)
    wmx = max(abs(w) for w in W) or 1.0
    t = data["/Info/AxisValues_t"]
    rec = {"rho": rho, "rho_prev": rho_prev, "W_cells": W, "W_prev": W_prev,
           "espread": es[nrec - 1], "espread_prev": es[nrec - 2],
           "q": q, "dq": dq, "delta": dq, "dtheta": TWO_PI / steps,
           "stationarity": stat, "stationarity_core": stat_core,
           "stationarity_wake": max(abs(a - b) for a, b in zip(W, W_prev)) / wmx,
           "t_last": t[nrec - 1], "t_prev": t[nrec - 2], "nrec": nrec,
           "charge": data["/BunchPopulation/data"][nrec - 1],
           "bunch_length": data["/BunchLength/data"][nrec - 1],
           "bunch_position": data["/BunchPosition/data"][nrec - 1],
           "volt": attrs.get("/WakePotential/data@Volt"),
           "derivation": attrs.get("/Info/Parameters@derivation"),
           "cmd": cmd, "wall_s": wall, "n": n, "steps": steps, "outfile": out}
    if not keep:
        for p in (out, out + ".cfg", out + ".log"):
            if os.path.exists(p):
                os.remove(p)
    return rec


# ------------------------------------------------------------------------------------ oracle

def sigma_p2(delta):
    return 1.0 - delta * delta / 2.0


def core_range(rho, frac=CORE_FRACTION):
    mx = max(rho)
    idx = [i for i, v in enumerate(rho) if v > frac * mx]
    lo, hi = idx[0], idx[-1]
    # the core of a single stable bunch is one interval; use the contiguous piece around the peak
    pk = rho.index(mx)
    lo = pk
    while lo > 0 and rho[lo - 1] > frac * mx:
        lo -= 1
    hi = pk
    while hi < len(rho) - 1 and rho[hi + 1] > frac * mx:
        hi += 1
    return lo, hi


def wake_term(rec, rule="trapezoid"):
    """(1/dtheta) * Int_{q_0}^{q_x} W dq in natural units, W = W_cells*delta per step."""
    W = rec["W_cells"]
    f = rec["delta"] * rec["dq"] / rec["dtheta"]
    out, acc = [], 0.0
    for i, w in enumerate(W):
        if rule == "trapezoid":
            if i > 0:
                acc += 0.5 * (W[i - 1] + w)
        else:
            acc += w
        out.append(acc * f)
    return out


def residual_curve(rec, sign=-1.0, scale=1.0, sp2=None, rule="trapezoid"):
    s2 = sigma_p2(rec["delta"]) if sp2 is None else sp2
    lo, hi = core_range(rec["rho"])
    wt = wake_term(rec, rule)
    q = rec["q"]
    R = [s2 * math.log(rec["rho"][i]) + q[i] * q[i] / 2.0 + sign * scale * wt[i] for i in range(lo, hi + 1)]
    return lo, hi, R, wt


def residual(rec, sign=-1.0, scale=1.0, sp2=None, rule="trapezoid"):
    lo, hi, R, wt = residual_curve(rec, sign, scale, sp2, rule)
    wc = wt[lo:hi + 1]
    return {"range": max(R) - min(R), "wake_term_span": max(wc) - min(wc), "core": (lo, hi),
            "n_core": hi - lo + 1}
