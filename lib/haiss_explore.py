"""C05, explored (not proved) part: a long run of the real binary with a weak, stable impedance
ends in a stationary state that satisfies the Haissinski equation

    R(q) = sigma_p^2 * ln rho(q) + q^2/2 - (1/dtheta) * Int^q W dq' = const   over the core (rho > 1% of max)

and keeps the equilibrium energy spread.  Everything here works on what the program records
(/BunchProfile/data, /WakePotential/data, /EnergySpread/data, /Info/AxisValues_z), read with h5cat.

Conventions (all re-measured on the pinned tree, tree hash 70d16a03ac91e285, 2026-10-01):
* q axis: /Info/AxisValues_z holds natural units (sigma_z0), q_x = (x-(n-1)/2)*dq, dq = PhaseSpaceSize/(n-1).
  The energy cell width `delta` is the same number (square grid).
* /WakePotential/data holds the kick-map offsets in *energy cells per step*.  In natural units per unit
  phase advance the force is W_cells*delta/dtheta, dtheta = 2*pi/StepsPerTs.  The integral is the cumulative
  TRAPEZOID sum, wake term(q_x) = (delta*dq/dtheta) * sum_{0<x'<=x} (W_cells[x'-1]+W_cells[x'])/2.  The
  rectangle sum (= the wake taken half a cell off) is measurably worse: reference-subtracted residual 0.019
  instead of 0.0046 (n=64, 1 mA) and 0.016 instead of 0.0008 (n=128, 2 mA), i.e. the check resolves a
  half-cell misalignment between wake and profile.
* sign: MINUS in front of the wake term.  The opposite sign gives a residual of 2x the wake span.
* main loop order per step: wake kick, RF kick, drift, Fokker-Planck; records are taken after FP.
* sigma_p^2 = 1 - delta^2/2 is the equilibrium variance of the *3-point* Fokker-Planck stencil
  (`--derivation 3`).  Measured /EnergySpread (last record), derivation 3, zero-current limit:
      espread = sqrt(1 - delta^2/2) * (1 + dtheta^2/8)        to < 2e-5 relative
  (n 64..128, StepsPerTs 50..1000; the dtheta^2/8 factor is the tilt of the kick-drift invariant ellipse at
  the point of the step where the record is taken: 2.0e-3 at 50 steps, 4.9e-4 at 100, 1.2e-4 at 200).
  With current the spread moves by at most -4.1e-4 (n=64) / -6e-5 (n=128) relative, see espread_tol().
  The DEFAULT `--derivation 4` (one-sided cubic) does NOT follow the formula: its equilibrium variance is
  ~1 (measured espread/(1+dtheta^2/8) = 0.9990 at n=64, 0.99987 at n=128; 1 - delta^2/2 would be 0.9818 /
  0.9955) and it leaks charge (+1.7% over 8000 steps at n=64, e1=4.5e-3), so a derivation-4 run is only
  stationary to ~5e-4 unless RenormalizeCharge=1.  All configurations below therefore pass --derivation 3;
  residual()/evaluate() accept sp2= for other stencils.

The documented discretisation term
----------------------------------
Even at (almost) zero current R(q) is not constant on the grid: R_0(q) ~ +c2*q^2 - c4*q^4 (lighter tails
than a Gaussian beyond |q| ~ 2.4, symmetric).  It is the stationary balance between the per-step error of the
cubic (4-point) interpolation in kick and drift, which acts like a hyper-diffusion ~ dq^4 * d^4f/dq^4, and the
Fokker-Planck term that restores the Gaussian at rate e1 = 2/(fs*t_damp*steps) per step.  Measured range of
R_0 over the core (derivation 3, PhaseSpaceSize 12):
      t_damp*fs = 4.45 periods (-d 1e-4):   n=64: 0.070/0.087/0.093/0.095 at 50/100/200/400 steps
                                            n=128: 0.0178/0.0154/0.0142 at 100/200/1000 steps    (~ 2*dq^2)
      t_damp*fs = 13 (-d 3e-4): n=128, 200 steps: 0.027;   22 (-d 5e-4): n=64: 0.19, n=96: 0.05-0.11,
      n=128: 0.021-0.046;   89 (-d 2e-3): n=64: 0.39-0.47;   135 (default damping): n=128, 200 steps: 0.174
  -> grows with the damping time (less restoring force per interpolation), grows and saturates with the number of
  steps per period, shrinks roughly like dq^2..dq^4 with the grid.  There is NO O(dtheta) term: the kick-drift
  splitting changes the q-marginal only at O(dtheta^2) (modified Hamiltonian H + dtheta/2 * p*V'(q) integrates
  to V - dtheta^2 V'^2/8), and scaling ln rho by sigma_p^2 removes the q^2/2*(1/sigma_p^2 - 1) term.
Because R_0 is a property of the grid and not of the wake, the sharp form of the check subtracts it, using a
*reference run* (same numerics, current 1e-6 A, wake span ~1e-4):
      D(q) = R_I(q) - R_ref(q)  over the common core;   range(D) is the "relative" residual.
Measured for every configuration (4 impedance kinds, n 64/128, 50..1000 steps, t_damp*fs 4.45 and 13):
      range(D) = (0.21 .. 0.75) * span * range(R_ref),      span = span of the wake term over the core
(the distortion of rho by exp(wake term) changes the interpolation error by about that much), while a wrong
sign gives 2*span and a scale error k gives |1-k|*span.  Tolerances:
      tol_rel = 0.001 + 1.5 * span * range(R_ref)           margin >= 2.0x on every run; detects |1-k| > ~0.14
                                                             at n=64 and > ~0.03 at n=128
      tol_abs = 0.005 + 3.2*dq^2 + 0.05*span                only for n >= 128 and t_damp*fs <= 5 (where
                                                             range(R_ref) <= 2*dq^2); margin >= 1.8x; exceeded by
                                                             wrong sign / x2 / x0.5 once span >= 0.1
      energy spread: | espread/(sqrt(1-delta^2/2)*(1+dtheta^2/8)) - 1 | <= 1e-4 + 0.1*delta^2*span
                     (measured: <= 3.2e-4 at n=64 against 8.7e-4, <= 6.8e-5 at n=128 against >= 1.2e-4)
      reference run: range(R_ref) <= 0.01 + 3.5*dq^2       (t_damp*fs <= 15; 0.137 at n=64, 0.041 at n=128;
                                                             margin 1.55x..2.9x); the same bound caps range(R_ref)
                                                             inside tol_rel, so a change that spoils the zero-current
                                                             state cannot buy itself a wider tolerance.
  The subtraction cancels everything that does not depend on the wake (e.g. a wrong RF angle); that part is
  seen by the bound on the reference run and by tol_abs.  End-to-end trial (scratch copy of the repo, drift angle
  doubled in main.cpp, i.e. the wake acts with half its strength): every quick configuration alarms, the data then
  fit the x0.5 alternative to 0.0002..0.004, and range(R_ref) = 4.1.
Default damping (135 periods) is not used for the check: 2000 periods at n=128 / 200 steps cost 225 s per run,
the charge drifts by +0.7% and the profile still moves by 1.3e-5..2.4e-5 between the last records, the energy
spread sits 6e-4 (1 mA) / 1e-3 (2 mA) below the formula, the un-subtracted residual is 0.24 against
0.31/0.27/0.26 for sign+/x2/x0.5 (useless), but the subtracted one still follows the law: 0.0089 (1 mA,
span 0.113) and 0.0137 (2 mA, span 0.201) = 0.45 / 0.39 * span * range(R_ref).
The float32 state reaches a fixed point or a tiny limit cycle: max|rho_last - rho_prev|/max(rho) between two
records 2.37 synchrotron periods apart is 0 .. 3e-6 for the strong-damping family (gate: 1e-5).  Without
renormalisation the total charge drifts by ~1e-5..1e-3 over a run (float32 rounding of the stencils), which
limits stationarity for long, weakly damped runs to ~1e-5.

NOTE for callers that mutate the repo: build the binary once and keep the returned paths; vp_build.build()
follows the working tree, so a concurrent edit silently changes the program under test.
"""
import math, os, subprocess, sys, time
from concurrent.futures import ThreadPoolExecutor

sys.path.insert(0, os.path.dirname(os.path.abspath(__file__)))
import vp_build

TWO_PI = 2.0 * math.pi
CORE_FRACTION = 0.01
STATIONARY_MAX = 1e-5          # gate on max|rho_last-rho_prev|/max(rho); measured 0..3e-6
QUASI_STATIONARY_MAX = 1e-3    # up to here the run is still judged, with tolerances widened by 3x the pointwise
                               # relative motion of rho in the core (damping 4.45 periods: the distance left to the
                               # fixed point is ~1.4x the change seen over the 2.37 periods between the records)
REF_CURRENT = 1e-6             # A; wake span ~1e-4 for shielded CSR
FS_DEFAULT = 44509.13          # Hz, synchrotron frequency of the default machine parameters (printed by -v)
ALTERNATIVES = (("right", -1.0, 1.0), ("sign+", 1.0, 1.0), ("x2", -1.0, 2.0), ("x0.5", -1.0, 0.5))


# ------------------------------------------------------------------------------------ running

def _pow2_ceil(v):
    p = 1
    while p < v:
        p *= 2
    return p


def padded_bins(n, padding=8.0, round_padding=True):
    """main.cpp: padded_bins = ceil(n*max(padding,1)), rounded up to a power of two by default."""
    v = int(math.ceil(n * max(float(padding), 1.0)))
    return _pow2_ceil(v) if round_padding else v


def write_const_impedance(path, nfreqs, re_ohm, im_ohm=0.0):
    """Impedance::readData: whitespace separated `lineno real imag` triples (Ohm), one entry per new lineno.
    The factory adds the file entry-wise to an `nfreqs` long vector and does not check the length
    (a shorter file is over-read), so twice the needed number of (constant) entries is written.  Only the
    first nfreqs/2 entries (0 .. f_max/2) are used by ElectricField::wakePotential."""
    with open(path, "w") as f:
        for i in range(2 * nfreqs):
            f.write("%d %.9g %.9g\n" % (i, re_ohm, im_ohm))


def laststep_of(cfg):
    # main.cpp: laststep = ceil(steps*rotations*(1.0-1e-12)) in doubles
    return int(math.ceil(float(cfg["steps"]) * float(cfg["rotations"]) * (1.0 - 1e-12)))


def cfg_name(cfg):
    if cfg.get("name"):
        return cfg["name"]
    cur = cfg["current"]
    return "%s-n%d-N%d-I%s" % (cfg["kind"], cfg["n"], cfg["steps"],
                               "_".join("%g" % c for c in cur) if isinstance(cur, (list, tuple)) else "%g" % cur)


def currents_of(cfg):
    """the filling pattern handed to -I: one current per bucket (0 = empty bucket); a single number = one bunch"""
    cur = cfg["current"]
    return [float(c) for c in cur] if isinstance(cur, (list, tuple)) else [float(cur)]


def build_cmd(tg, cfg, workdir, tag="run"):
    n = int(cfg["n"])
    steps = int(cfg["steps"])
    kind = cfg["kind"]
    opts = dict(cfg.get("opts", {}))
    out = os.path.join(workdir, tag + ".h5")
    laststep = laststep_of(cfg)
    # Three records only: step 0, step laststep-gap (inside the loop) and the final one, so the file and the
    # h5cat text stay small.  The gap is a non-integer number of synchrotron periods so that a surviving
    # coherent oscillation shows up as non-stationarity instead of being sampled at equal phase.
    gap = int(cfg.get("gap_steps", int(round(float(cfg.get("gap_periods", 2.37)) * steps))))
    gap = max(1, min(gap, max(1, laststep // 2 - 1)))
    outstep = laststep - gap
    cmd = [tg["inovesa"], "--config", "/dev/null", "--gui", "0", "-s", str(n), "-N", str(steps),
           "-T", repr(float(cfg["rotations"])), "-I"] + [repr(float(c)) for c in currents_of(cfg)] + [
           "-o", out, "-n", str(outstep)]
    if cfg.get("damping_time") is not None:
        cmd += ["-d", repr(float(cfg["damping_time"]))]
    gapm = float(cfg.get("vacuum_gap", 0.03))
    if kind == "csr-pp":            # shielded CSR, parallel plates
        cmd += ["-G", repr(abs(gapm)), "--UseCSR", "1"]
    elif kind == "csr-fs":          # free-space CSR
        cmd += ["-G", repr(-abs(gapm)), "--UseCSR", "1"]
    elif kind == "resistive-wall":  # pipe radius |G|/2
        cmd += ["-G", repr(abs(gapm)), "--UseCSR", "0",
                "--WallConductivity", repr(float(cfg["conductivity"]))]
    elif kind == "collimator":
        cmd += ["-G", repr(abs(gapm)), "--UseCSR", "0",
                "--CollimatorRadius", repr(float(cfg["collimator_radius"]))]
    elif kind == "const-file":      # constant (purely resistive for ohm_imag=0) impedance through -Z
        zf = os.path.join(workdir, tag + ".Z.txt")
        nf = padded_bins(n, float(opts.get("padding", 8.0)), bool(int(opts.get("RoundPadding", 1))))
        write_const_impedance(zf, nf, float(cfg["ohm"]), float(cfg.get("ohm_imag", 0.0)))
        cmd += ["-G", "0", "-Z", zf]
    else:
        raise ValueError("unknown impedance kind %r" % (kind,))
    for k in sorted(opts):
        cmd += [("-" if len(k) == 1 else "--") + k, str(opts[k])]
    return cmd, out, outstep


def _h5_data(h5cat, path, names, timeout_s=60):
    """h5cat prints `dataset <path> <type> <rank> d0.. fnv=..`, `attr <path> <name> <type> <n> v..` and, for the
    --only prefixes, `data <path> v..` with C99 hex floats."""
    cmd = ["timeout", str(int(timeout_s)), h5cat, path, "--values"]
    for nm in names:
        cmd += ["--only", nm]
    r = subprocess.run(cmd, capture_output=True, text=True)
    if r.returncode != 0:
        raise RuntimeError("h5cat failed (%d): %s" % (r.returncode, (r.stdout + r.stderr)[-400:]))
    shapes, data, attrs = {}, {}, {}
    for ln in r.stdout.splitlines():
        if ln.startswith("dataset "):
            t = ln.split()
            rank = int(t[3])
            shapes[t[1]] = [int(x) for x in t[4:4 + rank]]
        elif ln.startswith("data "):
            t = ln.split()
            data[t[1]] = [float.fromhex(x) if "x" in x else float(x) for x in t[2:]]
        elif ln.startswith("attr /Info/Parameters ") or ln.startswith("attr /WakePotential/data "):
            t = ln.split()
            if t[3] in ("f32", "f64") and len(t) > 5:
                attrs[t[1] + "@" + t[2]] = float.fromhex(t[5]) if "x" in t[5] else float(t[5])
            elif t[3] in ("u32", "i32", "u64", "i64") and len(t) > 5:
                attrs[t[1] + "@" + t[2]] = int(t[5])
    return shapes, data, attrs


def run_config(tg, cfg, workdir, timeout_s=600, tag=None, keep=False):
    """Runs one configuration to its end and returns the last records.  Raises RuntimeError when the
    binary fails / times out / aborts or the file does not have the expected shape."""
    os.makedirs(workdir, exist_ok=True)
    tag = tag or cfg_name(cfg)
    cmd, out, outstep = build_cmd(tg, cfg, workdir, tag)
    junk = [out, out + ".cfg", out + ".log", os.path.join(workdir, tag + ".Z.txt")]
    for p in junk[:3]:
        if os.path.exists(p):
            os.remove(p)
    t0 = time.time()
    r = subprocess.run(["timeout", "-k", "5", str(int(timeout_s))] + cmd, capture_output=True, text=True,
                       env=vp_build.xdg_env(), cwd=workdir)
    wall = time.time() - t0
    if r.returncode != 0 or not os.path.exists(out):
        raise RuntimeError("inovesa failed rc=%d after %.1fs: %s" % (r.returncode, wall, (r.stdout + r.stderr)[-600:]))
    if "Finished." not in r.stdout:
        raise RuntimeError("inovesa did not finish: %s" % r.stdout[-600:])
    names = ["/BunchProfile/data", "/WakePotential/data", "/EnergySpread/data", "/Info/AxisValues_z",
             "/Info/AxisValues_t", "/BunchPopulation/data", "/BunchLength/data", "/BunchPosition/data"]
    shapes, data, attrs = _h5_data(tg["h5cat"], out, names)
    n = int(cfg["n"])
    nrec = shapes.get("/BunchProfile/data", [0])[0]
    nb = len([c for c in currents_of(cfg) if c > 0])        # main(): one bunch per populated bucket
    if shapes.get("/BunchProfile/data") != [nrec, nb, n] or shapes.get("/WakePotential/data") != [nrec, nb, n] \
            or shapes.get("/EnergySpread/data") != [nrec, nb] or nrec < 2:
        raise RuntimeError("unexpected shapes %r" % (shapes,))
    bp = data["/BunchProfile/data"]
    wp = data["/WakePotential/data"]
    es = data["/EnergySpread/data"]
    q = data["/Info/AxisValues_z"]
    pss = float(attrs.get("/Info/Parameters@PhaseSpaceSize", cfg.get("opts", {}).get("PhaseSpaceSize", 12.0)))
    dq = pss / (n - 1)
    steps = int(cfg["steps"])
    t = data["/Info/AxisValues_t"]

    def bunch_record(b):
        """last records of bunch b: its OWN recorded profile and its OWN recorded wake"""
        at = lambda arr, k: arr[(k * nb + b) * n:(k * nb + b + 1) * n]
        rho, rho_prev = at(bp, nrec - 1), at(bp, nrec - 2)
        W, W_prev = at(wp, nrec - 1), at(wp, nrec - 2)
        mx = max(rho)
        if not (mx > 0) or any(v != v for v in rho):
            raise RuntimeError("profile of bunch %d is not positive / has NaN" % b)
        lo, hi = core_range(rho)
        stat = max(abs(a - c) for a, c in zip(rho, rho_prev)) / mx
        stat_core = max(abs(rho[i] - rho_prev[i]) / rho[i] for i in range(lo, hi + 1))
        wmx = max(abs(w) for w in W) or 1.0
        return {"rho": rho, "rho_prev": rho_prev, "W_cells": W, "W_prev": W_prev,
                "espread": es[(nrec - 1) * nb + b], "espread_prev": es[(nrec - 2) * nb + b],
                "q": q, "dq": dq, "delta": dq, "dtheta": TWO_PI / steps,
                "stationarity": stat, "stationarity_core": stat_core,
                "stationarity_wake": max(abs(a - c) for a, c in zip(W, W_prev)) / wmx,
                "t_last": t[nrec - 1], "t_prev": t[nrec - 2], "nrec": nrec,
                "charge": data["/BunchPopulation/data"][(nrec - 1) * nb + b],
                "bunch_length": data["/BunchLength/data"][(nrec - 1) * nb + b],
                "bunch_position": data["/BunchPosition/data"][(nrec - 1) * nb + b],
                "volt": attrs.get("/WakePotential/data@Volt"),
                "derivation": attrs.get("/Info/Parameters@derivation"),
                "cmd": cmd, "wall_s": wall, "n": n, "steps": steps, "name": tag, "bunch": b, "nb": nb,
                "tg": {"inovesa": tg["inovesa"], "h5cat": tg["h5cat"]}, "workdir": workdir}
    recs = [bunch_record(b) for b in range(nb)]
    rec = dict(recs[0])
    rec["bunches"] = recs           # one record per bunch (bunch 0 first); single-bunch callers use rec itself
    if not keep:
        for p in junk:
            if os.path.exists(p):
                os.remove(p)
    return rec


def reference_config(cfg):
    """Same numerics, negligible wake (shielded CSR at REF_CURRENT): its residual curve is the
    discretisation term R_0(q) of this grid / step / damping.  Shared by all kinds and currents."""
    ref = {"kind": "csr-pp", "n": cfg["n"], "steps": cfg["steps"], "rotations": cfg["rotations"],
           "current": REF_CURRENT, "damping_time": cfg.get("damping_time"), "opts": dict(cfg.get("opts", {}))}
    for k in ("gap_steps", "gap_periods"):
        if k in cfg:
            ref[k] = cfg[k]
    ref["name"] = "ref-n%d-N%d-T%g-d%s%s" % (ref["n"], ref["steps"], ref["rotations"], ref["damping_time"],
                                             "".join("-%s%s" % (k, v) for k, v in sorted(ref["opts"].items())))
    return ref


def _wisdom_present(n, opts):
    d = os.path.join(vp_build.xdg_env()["XDG_DATA_HOME"], "inovesa", "fftwisdom")
    nf = padded_bins(n, float(opts.get("padding", 8.0)), bool(int(opts.get("RoundPadding", 1))))
    return all(os.path.exists(os.path.join(d, "wisdom_%s32_%d.fftw" % (k, nf))) for k in ("r2c", "c2r"))


def run_many(tg, cfgs, workdir, timeout_s=900, jobs=None, log=None):
    """Runs configurations (and the reference runs they need) in parallel processes; returns
    {name: rec or Exception}.  FFTW planning for a new transform length is done once, serially, first."""
    todo, seen = [], set()
    for c in cfgs:
        for d in (reference_config(c), c):
            nm = cfg_name(d)
            if nm not in seen:
                seen.add(nm)
                todo.append(d)
    for c in todo:
        if not _wisdom_present(c["n"], c.get("opts", {})):
            w = dict(c, rotations=1, name="warm-n%d" % c["n"])
            try:
                run_config(tg, w, workdir, timeout_s)
            except RuntimeError as e:
                if log:
                    log("warm-up failed: %s" % e)
    jobs = jobs or max(1, min(8, (os.cpu_count() or 2) // 2))
    # longest first
    todo.sort(key=lambda c: -laststep_of(c) * c["n"] * c["n"])
    out = {}

    def one(c):
        try:
            return cfg_name(c), run_config(tg, c, workdir, timeout_s)
        except Exception as e:            # reported by the caller
            return cfg_name(c), e
    with ThreadPoolExecutor(max_workers=jobs) as ex:
        for nm, r in ex.map(one, todo):
            out[nm] = r
            if log:
                log("%-44s %s" % (nm, ("wall %.1fs" % r["wall_s"]) if isinstance(r, dict) else "FAILED %s" % r))
    return out


# ------------------------------------------------------------------------------------ oracle

def sigma_p2(delta):
    """equilibrium energy variance of the 3-point Fokker-Planck stencil (--derivation 3)"""
    return 1.0 - delta * delta / 2.0


def espread_expected(rec, derivation=3):
    """recorded energy spread of a weak-wake stationary state: sqrt(1-delta^2/2) for the 3-point
    Fokker-Planck stencil; for the default 4-point (cubic) stencil the equilibrium variance is 1 up to
    a measured deficit of 0.029*delta^2 (n=64) / 0.014*delta^2 (n=128), see espread_tol"""
    s2 = sigma_p2(rec["delta"]) if int(derivation) == 3 else 1.0
    return math.sqrt(s2) * (1.0 + rec["dtheta"] ** 2 / 8.0)


def espread_tol(rec, span, derivation=3):
    t = 1e-4 + 0.1 * rec["delta"] ** 2 * span
    if int(derivation) != 3:
        t += 0.05 * rec["delta"] ** 2      # measured 1.03e-3 (n=64), 1.3e-4 (n=128): margin >= 1.8x
    return t


def core_range(rho, frac=CORE_FRACTION):
    """contiguous index interval around the peak with rho > frac*max"""
    mx = max(rho)
    pk = rho.index(mx)
    lo = pk
    while lo > 0 and rho[lo - 1] > frac * mx:
        lo -= 1
    hi = pk
    while hi < len(rho) - 1 and rho[hi + 1] > frac * mx:
        hi += 1
    return lo, hi


def wake_term(rec, rule="trapezoid"):
    """(1/dtheta) * Int_{q_0}^{q_x} W dq in natural units, W = W_cells*delta per step."""
    W = rec["W_cells"]
    f = rec["delta"] * rec["dq"] / rec["dtheta"]
    out, acc = [], 0.0
    for i, w in enumerate(W):
        if rule == "trapezoid":
            if i > 0:
                acc += 0.5 * (W[i - 1] + w)
        else:
            acc += w
        out.append(acc * f)
    return out


def residual_curve(rec, sign=-1.0, scale=1.0, sp2=None, rule="trapezoid"):
    s2 = sigma_p2(rec["delta"]) if sp2 is None else sp2
    lo, hi = core_range(rec["rho"])
    wt = wake_term(rec, rule)
    q = rec["q"]
    R = [s2 * math.log(rec["rho"][i]) + q[i] * q[i] / 2.0 + sign * scale * wt[i] for i in range(lo, hi + 1)]
    return lo, hi, R, wt


def residual(rec, sign=-1.0, scale=1.0, ref=None, sp2=None, rule="trapezoid"):
    """R(q) = sigma_p^2*ln rho + q^2/2 + sign*scale*(1/dtheta)*cumsum(W_cells)*delta*dq over the core.
    sign=+1 and scale=2 or 0.5 are the wrong-physics alternatives.  With ref= (a record of the reference run)
    the reference curve, evaluated under the same hypothesis, is subtracted and the core is the common core."""
    lo, hi, R, wt = residual_curve(rec, sign, scale, sp2, rule)
    wc = wt[lo:hi + 1]
    out = {"wake_term_span": max(wc) - min(wc)}
    if ref is not None:
        lo0, hi0, R0, _ = residual_curve(ref, sign, scale, sp2, rule)
        a, b = max(lo, lo0), min(hi, hi0)
        R = [R[i - lo] - R0[i - lo0] for i in range(a, b + 1)]
        lo, hi = a, b
    out.update({"range": max(R) - min(R), "core": (lo, hi), "n_core": hi - lo + 1})
    return out


def damping_periods(cfg):
    """damping time in synchrotron periods (default machine parameters; None -> computed default 3.03 ms)"""
    td = cfg.get("damping_time")
    return (3.031190e-3 if td is None or td < 0 else td) * FS_DEFAULT


def ref_range_max(cfg, rec):
    """closed-form bound for the zero-current residual range R_0 (derivation 3, t_damp*fs <= 15 periods):
    measured 0.0865 (n=64, 100 steps; 0.070..0.095 for 50..400 steps), 0.0142..0.0178 (n=128, t_damp*fs=4.45),
    0.0266 (n=128, t_damp*fs=13) against 0.137 (n=64) / 0.0413 (n=128).  None: no bound known."""
    if damping_periods(cfg) > 15.0 or int(cfg.get("opts", {}).get("derivation", 4)) != 3:
        return None
    return 0.01 + 3.5 * rec["dq"] ** 2


def tol_rel(span, ref_range, ref_max=None):
    """ref_range enters through the measured law range(D) <= 0.75*span*range(R_ref); it is capped by its own
    bound so that a change which inflates the reference residual cannot widen the tolerance"""
    if ref_max is not None:
        ref_range = min(ref_range, ref_max)
    return 0.001 + 1.5 * span * ref_range


def tol_abs(cfg, rec, span):
    """closed-form bound for the un-subtracted residual; None where the discretisation term is too large
    for an absolute statement to discriminate"""
    if cfg["n"] < 128 or damping_periods(cfg) > 5.0 or int(cfg.get("opts", {}).get("derivation", 4)) != 3:
        return None
    return 0.005 + 3.2 * rec["dq"] ** 2 + 0.05 * span


def evaluate(cfg, rec, ref, sp2=None):
    """all numbers of one configuration; `ok` only says that the unmodified-code expectations hold"""
    out = {"name": cfg_name(cfg), "wall_s": rec["wall_s"], "stationarity": rec["stationarity"],
           "stationarity_ref": ref["stationarity"], "charge": rec["charge"]}
    r0 = residual(ref, sp2=sp2)
    out["ref_range"] = r0["range"]
    for nm, sg, sc in ALTERNATIVES:
        a = residual(rec, sg, sc, sp2=sp2)
        b = residual(rec, sg, sc, ref=ref, sp2=sp2)
        out["abs_" + nm] = a["range"]
        out["rel_" + nm] = b["range"]
        if nm == "right":
            out["span"] = a["wake_term_span"]
            out["n_core"] = a["n_core"]
    span = out["span"]
    out["ref_range_max"] = ref_range_max(cfg, rec)
    # a not quite stationary run (see QUASI_STATIONARY_MAX) is judged with tolerances widened by the motion of ln rho
    widen = 3.0 * max(rec["stationarity_core"], ref["stationarity_core"])
    out["widen"] = widen
    out["tol_rel"] = tol_rel(span, out["ref_range"], out["ref_range_max"]) + widen
    out["tol_abs"] = tol_abs(cfg, rec, span)
    if out["tol_abs"] is not None:
        out["tol_abs"] += widen
    if out["ref_range_max"] is not None:
        out["ref_range_max"] += widen
    out["espread"] = rec["espread"]
    deriv = int(cfg.get("opts", {}).get("derivation", 4))
    out["espread_expected"] = espread_expected(rec, deriv)
    out["espread_relerr"] = rec["espread"] / out["espread_expected"] - 1.0
    out["espread_tol"] = espread_tol(rec, span, deriv) + widen
    out["espread_drift"] = rec["espread"] - rec["espread_prev"]
    worst = max(rec["stationarity"], ref["stationarity"])
    out["stationary"] = worst <= STATIONARY_MAX
    out["judged"] = worst <= QUASI_STATIONARY_MAX
    out["ok_ref"] = None if out["ref_range_max"] is None else out["ref_range"] <= out["ref_range_max"]
    out["ok_rel"] = out["rel_right"] <= out["tol_rel"]
    out["ok_abs"] = None if out["tol_abs"] is None else out["abs_right"] <= out["tol_abs"]
    out["ok_espread"] = abs(out["espread_relerr"]) <= out["espread_tol"]
    out["discriminates_rel"] = all(out["rel_" + nm] > out["tol_rel"] and out["rel_" + nm] >= 3 * out["rel_right"]
                                   for nm, _, _ in ALTERNATIVES[1:])
    out["discriminates_abs"] = None if out["tol_abs"] is None else \
        all(out["abs_" + nm] > out["tol_abs"] and out["abs_" + nm] >= 3 * out["abs_right"]
            for nm, _, _ in ALTERNATIVES[1:])
    return out


_REF_CACHE = {}


def reference_for(cfg, rec, timeout_s=3000):
    """reference record for `cfg`, run with the binary that produced `rec` (cached per binary and numerics)"""
    rc = reference_config(cfg)
    key = (rec["tg"]["inovesa"], cfg_name(rc))
    if key not in _REF_CACHE:
        _REF_CACHE[key] = run_config(rec["tg"], rc, rec["workdir"], timeout_s)
    return _REF_CACHE[key]


def judge(ctx, cfg, rec, ref=None):
    """Verdict on one long run for lib/props/C05.py: evaluates the record (running / reusing the reference run
    when none is given), reports violations through ctx (may be None) and returns a JSON-able summary.
    A multi-bunch run is judged bunch by bunch: EACH bunch's own recorded profile against its own recorded wake
    (the summary of bunch 0 carries the others under "bunches").
    A run that did not become stationary does not meet the hypothesis of the property: noted, never an alarm."""
    if ref is None:
        ref = reference_for(cfg, rec)
    recs = rec.get("bunches") or [rec]
    if len(recs) == 1:
        return _judge_bunch(ctx, cfg, rec, ref, None)
    summs = [_judge_bunch(ctx, cfg, rb, ref, b) for b, rb in enumerate(recs)]
    out = dict(summs[0])
    out["bunches"] = summs
    return out


def _judge_bunch(ctx, cfg, rec, ref, bunch):
    e = evaluate(cfg, rec, ref, sp2=cfg.get("sp2"))
    name = cfg_name(cfg) + ("" if bunch is None else ":bunch%d" % bunch)
    who = "" if bunch is None else " (bunch %d of %d, its own recorded profile and wake)" % (bunch, rec.get("nb", 1))
    case = {"kind": "long-run", "cfg": cfg}
    summ = {k: (float("%.6g" % v) if isinstance(v, float) else v) for k, v in e.items()}
    summ["name"] = name
    summ["cmd"] = " ".join(rec["cmd"][1:])
    nontrivial = bool(e["stationary"] and e["span"] >= 0.05)
    if ctx is not None:
        ctx.count("long-run:" + cfg["kind"] + ("" if bunch in (None, 0) else ":bunch>0"))
        ctx.case_done("long-run:" + name, nontrivial)
        if not e["stationary"]:
            ctx.notes.append("long run %s not stationary to %.0e (%.1e / reference %.1e): %s"
                             % (name, STATIONARY_MAX, e["stationarity"], e["stationarity_ref"],
                                "judged with tolerances widened by %.1e" % e["widen"] if e["judged"]
                                else "hypothesis not met, not judged"))
        if e["judged"]:
            if e["ok_ref"] is False and bunch in (None, 0):
                ctx.violation("impl-oracle", "zero-current stationary profile is not the grid's Gaussian: residual range "
                              "%.4g > bound %.4g (reference run %s)" % (e["ref_range"], e["ref_range_max"],
                                                                        cfg_name(reference_config(cfg))),
                              case={"kind": "long-run", "cfg": reference_config(cfg)}, observed=e["ref_range"],
                              expected="<= %.4g" % e["ref_range_max"],
                              sig={"stage": "long-run", "what": "reference-residual"})
            if not e["ok_rel"]:
                ctx.violation("impl-oracle", "stationary state violates the Haissinski equation%s: residual (reference "
                              "run subtracted) %.4g > tol %.4g, wake term span %.4g; alternatives sign+ %.4g, x2 %.4g, "
                              "x0.5 %.4g" % (who, e["rel_right"], e["tol_rel"], e["span"], e["rel_sign+"], e["rel_x2"],
                                             e["rel_x0.5"]),
                              case=case, observed=e["rel_right"], expected="<= %.4g" % e["tol_rel"],
                              sig={"stage": "long-run", "what": "haissinski-residual"})
            if e["ok_abs"] is False:
                ctx.violation("impl-oracle", "stationary state violates the Haissinski equation%s: residual %.4g > "
                              "tol %.4g (discretisation term 3.2 dq^2 included), wake term span %.4g"
                              % (who, e["abs_right"], e["tol_abs"], e["span"]),
                              case=case, observed=e["abs_right"], expected="<= %.4g" % e["tol_abs"],
                              sig={"stage": "long-run", "what": "haissinski-residual"})
            if not e["ok_espread"]:
                ctx.violation("impl-oracle", "stationary energy spread%s %.6f differs from sigma_p*(1+dtheta^2/8), sigma_p^2 = 1-delta^2/2 (3-point) or 1 (4-point),"
                              " = %.6f by %.2e relative (tol %.2e)" % (who, e["espread"], e["espread_expected"],
                                                                       e["espread_relerr"], e["espread_tol"]),
                              case=case, observed=e["espread"], expected=e["espread_expected"],
                              sig={"stage": "long-run", "what": "energy-spread"})
    return summ


# ------------------------------------------------------------------------------------ configurations

def _cfg(name, kind, n, steps, current, rotations=80, damping_time=1e-4, opts=None, **kw):
    c = {"name": name, "kind": kind, "n": n, "steps": steps, "rotations": rotations, "current": current,
         "damping_time": damping_time, "opts": dict({"derivation": 3}, **(opts or {}))}
    c.update(kw)
    return c


def quick_configs():
    """~1 s per n=64 run, ~3.5 s per n=128 run (100 steps/period, 80 periods = 18 damping times of 4.45
    periods); 5 runs + 2 reference runs, ~12 s serial."""
    return [
        _cfg("q64-pp-1mA", "csr-pp", 64, 100, 1e-3),
        _cfg("q64-pp-2mA", "csr-pp", 64, 100, 2e-3),
        _cfg("q64-rw-4mA", "resistive-wall", 64, 100, 4e-3, conductivity=1e6),
        _cfg("q64-const-2mA", "const-file", 64, 100, 2e-3, ohm=100.0),
        _cfg("q128-pp-2mA", "csr-pp", 128, 100, 2e-3),
        # the program's default 4-point Fokker-Planck stencil (equilibrium variance 1; needs renormalisation
        # to become stationary): residual with sigma_p^2 = 1
        _cfg("q64-pp-1mA-deriv4", "csr-pp", 64, 200, 1e-3, opts={"derivation": 4, "RenormalizeCharge": 1}, sp2=1.0),
        # two bunches with unequal currents (resistive collimator impedance: each bunch sees its own wake only,
        # and the wakes differ with the currents): the residual is evaluated for EACH bunch from its own recorded
        # profile and wake; same numerics as the q64 runs, so no further reference run
        _cfg("q64-coll-2bunches-4mA-1.5mA", "collimator", 64, 100, [4e-3, 1.5e-3], collimator_radius=0.005),
        # grids shifted DIFFERENTLY in position and energy (both signs): the RF kick is written in cells and is the focusing
        # force -tan(dtheta) q only on square cells (C05_rf_kick_natural_units); a mesh-width ratio != 1 puts a term
        # (delta_E/delta_q - 1) q^2/2 into the residual of the run AND of its reference run (judged by the bound on range(R_ref))
        _cfg("q64-coll-4mA-shift-5+3", "collimator", 64, 100, 4e-3, collimator_radius=0.005,
             opts={"PhaseSpaceShiftX": -5, "PhaseSpaceShiftY": 3}),
        _cfg("q64-pp-2mA-shift+4-6", "csr-pp", 64, 100, 2e-3, opts={"PhaseSpaceShiftX": 4, "PhaseSpaceShiftY": -6}),
    ]


def thorough_configs():
    """128x128, four impedance kinds x three currents (mild to order-one distortion, all below threshold)
    x 200 / 1000 steps per period, plus one run with three times weaker damping."""
    out = []
    for steps in (200, 1000):
        for i, cur in enumerate((0.5e-3, 1e-3, 2e-3)):
            out.append(_cfg("t128-N%d-pp-%gmA" % (steps, cur * 1e3), "csr-pp", 128, steps, cur))
        for cur in (1e-3, 2e-3, 4e-3):
            out.append(_cfg("t128-N%d-rw-%gmA" % (steps, cur * 1e3), "resistive-wall", 128, steps, cur,
                            conductivity=1e6))
        for cur in (1e-3, 2e-3, 4e-3):
            out.append(_cfg("t128-N%d-const-%gmA" % (steps, cur * 1e3), "const-file", 128, steps, cur, ohm=100.0))
        for cur in (0.5e-4, 1e-4, 2e-4):
            out.append(_cfg("t128-N%d-fs-%gmA" % (steps, cur * 1e3), "csr-fs", 128, steps, cur))
    out.append(_cfg("t128-N200-pp-1mA-d3e-4", "csr-pp", 128, 200, 1e-3, rotations=215, damping_time=3e-4,
                    opts={"RenormalizeCharge": 1}))
    for cur in (1e-3, 2e-3):
        out.append(_cfg("t128-N200-pp-%gmA-deriv4" % (cur * 1e3), "csr-pp", 128, 200, cur,
                        opts={"derivation": 4, "RenormalizeCharge": 1}, sp2=1.0))
    # multi-bunch: unequal currents, every bunch judged on its own recorded profile and wake; the second one
    # with an empty bucket between the bunches
    out.append(_cfg("t128-N200-coll-2bunches-4mA-1.5mA", "collimator", 128, 200, [4e-3, 1.5e-3], collimator_radius=0.005))
    out.append(_cfg("t128-N200-coll-3buckets-3mA-0-1.5mA", "collimator", 128, 200, [3e-3, 0.0, 1.5e-3],
                    collimator_radius=0.005))
    out.append(_cfg("t64-N100-coll-2bunches-4mA-1.5mA", "collimator", 64, 100, [4e-3, 1.5e-3], collimator_radius=0.005))
    return out


# ------------------------------------------------------------------------------------ table

def table(tg, cfgs, workdir, timeout_s=900, jobs=None, log=print):
    t0 = time.time()
    res = run_many(tg, cfgs, workdir, timeout_s, jobs, log=None)
    rows = []
    hdr = ("%-26s %6s %8s %9s %9s %9s | %7s %7s %7s %7s %7s %7s | %7s %7s %7s %7s %7s | %s"
           % ("cfg", "wall_s", "station.", "espread", "expected", "relerr", "rel:ok", "sign+", "x2", "x0.5",
              "span", "tol_rel", "abs:ok", "sign+", "x2", "x0.5", "tol_abs", "verdict"))
    log(hdr)
    for c in cfgs:
        nm = cfg_name(c)
        rec, ref = res.get(nm), res.get(cfg_name(reference_config(c)))
        if not isinstance(rec, dict) or not isinstance(ref, dict):
            log("%-26s FAILED: %s" % (nm, rec if not isinstance(rec, dict) else ref))
            rows.append({"name": nm, "error": str(rec if not isinstance(rec, dict) else ref)})
            continue
        e = evaluate(c, rec, ref)
        rows.append(e)
        verdict = []
        verdict.append("stationary" if e["stationary"] else "quasi-stationary" if e["judged"] else "NOT-STATIONARY")
        if e["ok_ref"] is not None:
            verdict.append("ref-ok" if e["ok_ref"] else "REF-EXCEEDED")
        verdict.append("rel-ok" if e["ok_rel"] else "REL-EXCEEDED")
        verdict.append("discr" if e["discriminates_rel"] else "NO-DISCR")
        if e["tol_abs"] is not None:
            verdict.append("abs-ok" if e["ok_abs"] else "ABS-EXCEEDED")
            verdict.append("absdiscr" if e["discriminates_abs"] else "no-absdiscr")
        verdict.append("es-ok" if e["ok_espread"] else "ES-EXCEEDED")
        log("%-26s %6.1f %8.1e %9.6f %9.6f %+9.1e | %7.4f %7.4f %7.4f %7.4f %7.4f %7.4f | %7.4f %7.4f %7.4f %7.4f %7s | %s"
            % (nm, e["wall_s"], max(e["stationarity"], e["stationarity_ref"]), e["espread"], e["espread_expected"],
               e["espread_relerr"], e["rel_right"], e["rel_sign+"], e["rel_x2"], e["rel_x0.5"], e["span"],
               e["tol_rel"], e["abs_right"], e["abs_sign+"], e["abs_x2"], e["abs_x0.5"],
               "-" if e["tol_abs"] is None else "%.4f" % e["tol_abs"], " ".join(verdict)))
    refs = sorted(set(cfg_name(reference_config(c)) for c in cfgs))
    for r in refs:
        rr = res.get(r)
        if isinstance(rr, dict):
            log("%-60s wall %5.1f station. %.1e  R_0 range %.4f  espread relerr %+.1e"
                % (r, rr["wall_s"], rr["stationarity"], residual(rr)["range"],
                   rr["espread"] / espread_expected(rr) - 1.0))
    log("total wall %.1fs for %d runs + %d reference runs" % (time.time() - t0, len(cfgs), len(refs)))
    return rows


if __name__ == "__main__":
    import tempfile
    tier = sys.argv[1] if len(sys.argv) > 1 else "quick"
    jobs = int(sys.argv[2]) if len(sys.argv) > 2 else None
    tg = vp_build.build("std", harness=("h5cat",), want_binary=True, log=print)
    cfgs = thorough_configs() if tier == "thorough" else quick_configs()
    with tempfile.TemporaryDirectory(prefix="haiss-") as wd:
        table(tg, cfgs, wd, jobs=jobs)
