"""Family `round`: the PROVED rounding envelopes (coq/Props/Properties_C02.v / _C01.v, section "to rounding")
used as tolerances of the unity / weight / conservation oracles.  The numbers come from the extracted
Coq functions themselves (coq/Extract/Extract_round.v, md_round.ml), not from constants typed in here:

  consts()            Bsum, Bone, Lsum (C02_weights_*), Crow (C01_sm_row_kick_rounding), it = 1..4
  weight_bounds(it,f) per-weight bounds E_j of the cell of [0,1] (2^K_TABLE cells) containing f, from the verified
                      calculator run on the typed trees regenerated from calcCoefficiants (C02_cell_table_sound)
  fl_weights(it,fs)   binary32 evaluation of the typed trees on rationals, unfused and contracted (bit-exact stream)

What is still assumed (recorded in ctx.trusted by `trusted`): that the compiler performs every float
operation of calcCoefficiants / apply as ONE IEEE-754 binary32 operation rounded to nearest, or fuses
a*b+c into one fused multiply-add - the theorems hold for every mixture of the two, for every
summation order inside a cell, and for wider intermediates; and the typed-tree translator."""
from fractions import Fraction
from vp_common import *
import vp_coq

K_TABLE = 10
U = Fraction(1, 2 ** 24)
ETA = Fraction(1, 2 ** 150)
_cache = {}

TRUSTED = ("rounding theorems assume each binary32 operation of calcCoefficiants / KickMap::apply / SourceMap::apply is one "
           "IEEE-754 round-to-nearest operation or part of a fused multiply-add (any mixture, any summation order within a "
           "cell, any wider intermediate precision are covered); the harness build uses -O1 -ffp-contract=off, the repo's own "
           "CMake build may contract - both are instances of the theorems")


def trusted(ctx):
    ctx.trusted.add(TRUSTED)
    ctx.trusted.add("translator coeffsfl2coq (typed trees; cross-checked against coeffs2coq on every run and by the bit-exact "
                    "weight stream)")
    ctx.trusted.add("the Q2R image of the exact Qc tables of the extracted models is used as the real-number table of the rounding "
                    "theorems (same generic-field functions at the two instances; the ring morphism itself is not a theorem)")


def _run(text):
    rc, out, err = run_driver(vp_coq.model_path("round"), text)
    if rc != 0:
        raise RuntimeError("model_round: rc=%d %s" % (rc, err[-500:]))
    return parse_cases(out)


def consts():
    if "consts" not in _cache:
        r = _run("consts c\n")["c"]
        _cache["consts"] = {k: [parse_q(t) for t in r[k][0]] for k in ("bsum", "bone", "lsum", "crow")}
    return _cache["consts"]


def errtab(it, k=K_TABLE):
    """per cell the list of proved bounds (Fractions) on |computed weight_j - exact weight_j|"""
    key = ("errtab", it, k)
    if key not in _cache:
        r = _run("errtab t %d %d\n" % (it, k))["t"]
        rows = []
        for row in r["row"]:
            if row == ["none"]:
                raise RuntimeError("the error calculator gives no bound for a cell of order %d (division by an interval containing zero?)" % it)
            rows.append([Fraction(int(t, 16), 2 ** 64) for t in row])
        if len(rows) != 2 ** k or any(len(x) != it for x in rows):
            raise RuntimeError("error table of order %d has the wrong shape" % it)
        _cache[key] = rows
    return _cache[key]


def errtab_units(it, k=K_TABLE):
    """the same table as integers in units of 2^-64 (for the C++ sweep)"""
    return [[int(e * 2 ** 64) for e in row] for row in errtab(it, k)]


def cell_of(f, k=K_TABLE):
    f = Fraction(f)
    if not (0 <= f <= 1):
        raise ValueError("offset outside [0,1]")
    return min(int(f * 2 ** k), 2 ** k - 1)


def weight_bounds(it, f, k=K_TABLE):
    return errtab(it, k)[cell_of(f, k)]


def centre(it):
    return (it - 1) // 2


def check_weights(it, f, wi, wexact):
    """wi: the implementation's weights, wexact: the exact weights (Fractions).  Returns a dict of the proved
    bounds that fail: 'each' (index, error, bound), 'unity' (error, bound), 'moment' (k, error, bound)"""
    E = weight_bounds(it, f)
    bad = {}
    for j in range(it):
        if isinstance(wi[j], str) or abs(wi[j] - wexact[j]) > E[j]:
            bad["each"] = (j, str(wi[j]), str(E[j]))
            break
    if any(isinstance(w, str) for w in wi):
        bad["unity"] = ("nonfinite", str(sum(E)))
        return bad
    s = sum(wi)
    if abs(s - 1) > sum(E):
        bad["unity"] = (str(s - 1), str(sum(E)))
    c = centre(it)
    fq = Fraction(f)
    for k in range(1, it):
        m = sum(wi[j] * Fraction(j - c) ** k for j in range(it))
        tol = sum(E[j] * abs(Fraction(j - c)) ** k for j in range(it))
        if abs(m - fq ** k) > tol:
            bad["moment"] = (k, str(m - fq ** k), str(tol))
            break
    return bad


def fl_weights(it, fs):
    """[(unfused weights, contracted weights)] per f: the binary32 evaluation the typed trees prescribe"""
    r = _run("flw w %d %d %s\n" % (it, len(fs), " ".join(qtok(Fraction(f)) for f in fs)))["w"]
    return [([parse_q(t) for t in a], [parse_q(t) for t in b]) for a, b in zip(r["w"], r["wc"])]


# ------------------------------------------------------------------ C01: one kick of one row

def a32(k):
    """A32 k = (2k-1) (1+u)^k eta  (Proofs/RoundingP.v psum_abs)"""
    return (2 * k - 1) * (1 + U) ** k * ETA


def kick_row_tol(it, n, row):
    """right-hand side of C01_sm_row_kick_rounding"""
    return consts()["crow"][it - 1] * U * sum(abs(Fraction(v)) for v in row) + n * a32(it)


def kick_row_applicable(n, o):
    """hypothesis of the theorem beyond row_ok: fl(n/2 + offset) >= 0 (then the fractional part is in [0,1))"""
    return f32(float(n // 2) + float(o)) >= 0.0


def kick_tol(n, it, o, row, theorem_hyp):
    """tolerance of the row-sum oracle of C01: the proved bound where the theorem's hypotheses hold (row_ok: stencil inside
    the table and support clear of the border under every shift; fl(n/2+offset) >= 0), else the former hand-picked
    80 * 2^-24 * Sum|row| (rows that meet only the property's own hypothesis)"""
    if theorem_hyp and kick_row_applicable(n, o):
        return kick_row_tol(it, n, row)
    return Fraction(64, 2 ** 24) * sum(abs(Fraction(v)) for v in row) * Fraction(5, 4)


# ------------------------------------------------------------------ C01: Fokker-Planck 3-point column

def cw(k, w, wh):
    g = (1 + U) ** k - 1
    return abs(wh - w) + g * (abs(w) + abs(wh - w))


def fp3_tolerance(c, r, col):
    """right-hand side of C01_fp3_rounding_any_axis for one column `col` (Fractions) of case c:
    Sum_k |r_k| (|axis_defect_k| + colw_k) + n A32 3, with the model's exact table and the implementation's stored weights"""
    n = c.n
    mt, it = r["model_table"], r["impl_table"]
    e1, d = Fraction(c.e1), Fraction(c.delta)
    p = [Fraction(a) for a in c.axis]
    damp = c.v in (1, 3)
    colw = [Fraction(0)] * n
    for y in range(n):
        for j in range(3):
            (mi, mw), (ii, iw) = mt[y * 3 + j], it[y * 3 + j]
            if mi != ii or isinstance(iw, str):
                return None
            if 0 <= mi < n:
                colw[mi] += cw(3, mw, iw)
    tol = n * a32(3)
    for k in range(n):
        if col[k] == 0:
            continue
        ad = e1 * (1 - (p[k + 1] - p[k - 1]) / (2 * d)) if damp else Fraction(0)
        tol += abs(col[k]) * (abs(ad) + colw[k])
    return tol


def fp3_oracle(ctx, c, r):
    """3-point Fokker-Planck step, tolerance stream: per interior-supported column the plain sum before/after apply()
    within the PROVED rounding term (no hand-picked constant)"""
    if c.dt != 3 or c.steps != 1 or c.stream == "exact":
        return
    n, nb = c.n, c.nb
    for b in range(nb):
        for x in range(n):
            col = c.column(b, x)
            nz = [y for y, val in enumerate(col) if val != 0]
            if not nz or nz[0] < 2 or nz[-1] >= n - 2:
                continue
            o = b * n * n + x * n
            out = r["impl_out"][o:o + n]
            if any(isinstance(t, str) for t in out):
                continue                      # reported by the family's own oracle
            tol = fp3_tolerance(c, r, col)
            if tol is None:
                continue                      # table disagreement: reported by the correspondence
            d = abs(sum(out) - sum(col))
            ctx.extra.setdefault("fp3_rounding_ratio_max", 0.0)
            if tol > 0:
                ctx.extra["fp3_rounding_ratio_max"] = max(ctx.extra["fp3_rounding_ratio_max"], float(d / tol))
            if d > tol:
                ctx.violation("impl-oracle", "column sum changes under the 3-point Fokker-Planck step by more than the proved rounding term "
                              "(C01_fp3_rounding_any_axis)", case=c.replay(),
                              observed=dict(b=b, column=x, defect=str(d), proved_bound=str(tol)), expected=str(sum(col)),
                              sig=dict(kind="fp", clause="conservation-rounding", dt=3, variant=c.v))
                return
            ctx.case_done(("fp3round", c.cid, b, x), c.v != 0 and c.e1 != 0)
