"""Operation histories on one ElectricField object (family hist, C18): generation, execution on
the implementation (harness/impl_hist.cpp) and on the extracted model (coq/Extract/md_hist.ml),
comparison.  Every random choice comes from the rng handed in."""
import struct
from fractions import Fraction
from vp_common import *
import vp_build, vp_coq

POW2 = [8, 16, 32, 64]
COMPOSITE = [12, 18, 24, 36, 45, 60]
PRIME = [7, 11, 17, 31, 61]
POW2_T = [128, 256]
COMPOSITE_T = [96, 100, 150, 210]
PRIME_T = [97, 127, 251]
BUFS = ["bp", "ff", "wl", "wp", "wake", "csr", "csri"]


def ncat(N):
    if N & (N - 1) == 0:
        return "pow2"
    if all(N % d for d in range(2, int(N ** 0.5) + 1)):
        return "prime"
    return "composite"


class HistCase:
    def __init__(self, cid, n, nb, N, sp, buckets, z, ops, note=""):
        self.cid, self.n, self.nb, self.N, self.sp = cid, n, nb, N, sp
        self.buckets, self.z, self.ops, self.note = list(buckets), list(z), list(ops), note
        # ops: (kind, cutoff float, profile list of nb*n floats)

    def first_offset(self):
        return min(self.buckets) * self.sp

    def overlapping(self):
        o = sorted(b * self.sp for b in self.buckets)
        return any(o[i + 1] - o[i] < self.n for i in range(len(o) - 1))

    def impl_text(self):
        s = ["hist %s %d %d %d %d %s" % (self.cid, self.n, self.nb, self.N, self.sp, " ".join(map(str, self.buckets)))]
        s.append(" ".join("%s %s" % (fhex(re), fhex(im)) for re, im in self.z))
        s.append(str(len(self.ops)))
        for k, cut, p in self.ops:
            s.append("%s %s %s" % (k, fhex(cut), " ".join(fhex(v) for v in p)))
        return "\n".join(s) + "\n"

    def model_text(self, fixed=True):
        s = ["hist %s %d %d %d %d %s %d %d" % (self.cid, self.n, self.nb, self.N, self.sp,
                                               " ".join(map(str, self.buckets)), 1 if fixed else 0, len(self.ops))]
        for k, cut, p in self.ops:
            s.append("%s %s %s" % (k, qtok(Fraction(cut)), " ".join(qtok(Fraction(v)) for v in p)))
        return "\n".join(s) + "\n"

    def replay(self):
        return dict(kind="hist", id=self.cid, n=self.n, nb=self.nb, N=self.N, spacing=self.sp, buckets=self.buckets,
                    impedance=[[fhex(a), fhex(b)] for a, b in self.z],
                    ops=[dict(op=k, cutoff=fhex(c), profile=[fhex(v) for v in p]) for k, c, p in self.ops],
                    note=self.note)

    @staticmethod
    def from_replay(d):
        return HistCase(d["id"], d["n"], d["nb"], d["N"], d["spacing"], d["buckets"],
                        [(float.fromhex(a), float.fromhex(b)) for a, b in d["impedance"]],
                        [(o["op"], float.fromhex(o["cutoff"]), [float.fromhex(v) for v in o["profile"]]) for o in d["ops"]],
                        d.get("note", ""))

    def describe(self):
        return dict(id=self.cid, n=self.n, nb=self.nb, N=self.N, spacing=self.sp, buckets=self.buckets,
                    history="".join(k for k, _, _ in self.ops), note=self.note)

    def with_ops(self, ops, cid=None):
        return HistCase(cid or self.cid, self.n, self.nb, self.N, self.sp, self.buckets, self.z, ops, self.note)


def rand_profile(rng, n, nb):
    c = rng.random()
    if c < 0.15:      # small integers (sums stay exact)
        return [float(rng.randint(-3, 5)) for _ in range(n * nb)]
    if c < 0.25:      # sparse
        return [f32(rng.uniform(0, 2)) if rng.random() < 0.3 else 0.0 for _ in range(n * nb)]
    return [f32(rng.uniform(-0.5, 2.0)) for _ in range(n * nb)]


def gen_case(rng, cid, Ns, maxlen=12, force=None):
    """force: None | 'ghost' (first bucket non-zero, CSR before Wake) | 'stale' (nb>1, Pad/Wake before CSR)"""
    N = rng.choice(Ns)
    nb = rng.choice([1, 1, 2, 2, 3])
    if force == "stale":
        nb = rng.choice([2, 3])
    # grid size and spacing so that every bucket fits: max(bucket)*sp + n <= N
    for _ in range(200):
        n = rng.randint(2, max(2, min(10, N // 2)))
        firstnz = rng.random() < 0.5 or force == "ghost"
        if nb == 1:
            buckets = [rng.randint(1, 3) if firstnz else 0]
        else:
            top = nb + rng.randint(0, 2)
            pool = list(range(1 if firstnz else 0, top + 1))
            if len(pool) < nb:
                continue
            buckets = rng.sample(pool, nb)
            if not firstnz and 0 not in buckets:
                buckets[rng.randrange(nb)] = 0
                if len(set(buckets)) < nb:
                    continue
            if rng.random() < 0.5:
                buckets.sort(reverse=rng.random() < 0.5)
        mb = max(buckets)
        if mb == 0:
            sp = rng.randint(0, N)
        else:
            hi = (N - n) // mb
            if hi < 1:
                continue
            lo = 1 if rng.random() < 0.2 else min(n, hi)      # lo < n: overlapping buckets
            sp = rng.randint(lo, hi)
            if rng.random() < 0.25:
                sp = hi                                           # last write ends at/near N
        if rng.random() < 0.08 and force is None:
            sp = 0                                                # the program's radiation field: no spacing
        if max(buckets) * sp + n <= N:
            break
    else:
        n, nb, buckets, sp = 2, 1, [0], 0
    z = [(f32(rng.uniform(0.25, 2.0)), f32(rng.uniform(-1.0, 1.0))) for _ in range(N)]
    L = rng.randint(1, maxlen)
    ops = []
    prev = None
    for k in range(L):
        kind = rng.choice("WPC")
        cut = 0.0 if rng.random() < 0.5 else f32(rng.uniform(1e7, 2e9))
        if prev is not None and rng.random() < 0.25:
            p = list(prev)
        else:
            p = rand_profile(rng, n, nb)
        prev = p
        ops.append((kind, cut if kind == "C" else 0.0, p))
    if force == "ghost":
        ops = ops[:-2] + [("C", 0.0, ops[-1][2]), ("W", 0.0, ops[-1][2])]
    if force == "stale":
        ops = ops[:-2] + [(rng.choice("PW"), 0.0, ops[-1][2]), ("C", 0.0, ops[-1][2])]
    return HistCase(cid, n, nb, N, sp, buckets, z, ops, force or "random")


def gen_cases(ctx, count, Ns, maxlen=12, prefix="h"):
    cases = []
    for i in range(count):
        force = None
        if i % 10 == 3:
            force = "ghost"
        elif i % 10 == 7:
            force = "stale"
        c = gen_case(ctx.rng, "%s%d" % (prefix, i), Ns, maxlen, force)
        cases.append(c)
        ctx.count("N:" + ncat(c.N))
        ctx.count("nb:%d" % c.nb)
        ctx.count("first-bucket:" + ("zero" if c.first_offset() == 0 else "nonzero"))
        ctx.count("len:%s" % ("1" if len(c.ops) == 1 else "2-4" if len(c.ops) <= 4 else "5-12" if len(c.ops) <= 12 else ">12"))
        if c.overlapping():
            ctx.count("overlapping-buckets")
    return cases


def _parse(out, model):
    res = {}
    cur = None
    for line in out.splitlines():
        p = line.split()
        if not p:
            continue
        if p[0] == "case":
            cur = []
            res[p[1]] = cur
        elif p[0] == "end":
            cur = None
        elif cur is None:
            continue
        elif p[0] == "op":
            d = dict(k=int(p[1]), kind=p[2], same=p[4] == "1")
            if not d["same"] and len(p) > 5:
                d["diff"] = dict(buffer=p[5], index=int(p[6]), got=p[7], expected=p[8])
            cur.append(d)
        elif p[0] == "bp":
            cur[-1]["bp"] = [parse_q(t) for t in p[1:]] if model else [parse_c(t) for t in p[1:]]
        elif p[0] == "B":
            cur[-1]["B"] = dict(re=parse_c(p[1]), im=parse_c(p[2]), wl_upper_zero=p[3] == "1", ff_upper_zero=p[4] == "1")
        elif p[0] == "fp":
            cur[-1]["fp"] = dict(zip(BUFS, ["" if m == "-" else m for m in p[1:]]))
    return res


def run_impl(tg, cases, timeout=1200):
    rc, out, err = run_driver(tg["impl_hist"], "".join(c.impl_text() for c in cases), env=vp_build.xdg_env(), timeout=timeout)
    if rc != 0:
        raise RuntimeError("impl_hist failed rc=%d: %s" % (rc, err[-2000:]))
    return _parse(out, False)


def run_model(cases, fixed=True, timeout=1200):
    rc, out, err = run_driver(vp_coq.model_path("hist"), "".join(c.model_text(fixed) for c in cases), timeout=timeout)
    if rc != 0:
        raise RuntimeError("model_hist failed rc=%d: %s" % (rc, err[-2000:]))
    return _parse(out, True)


def compare(c, impl, model):
    """model vs implementation for one case -> list of (what, detail); (B)-probe observations
    are returned separately: list of op indices where the probe saw cell N/2 of wl change."""
    dis, bprobe = [], []
    h = c.N // 2
    if len(impl) != len(c.ops) or len(model) != len(c.ops):
        return [("length", dict(impl=len(impl), model=len(model), ops=len(c.ops)))], bprobe
    for k, (i, m) in enumerate(zip(impl, model)):
        if i["bp"] != m["bp"]:
            j = next(t for t in range(c.N) if i["bp"][t] != m["bp"][t])
            dis.append(("padded-profile", dict(op=k, kind=i["kind"], cell=j, impl=str(i["bp"][j]), model=str(m["bp"][j]))))
        for b in BUFS:
            fi, fm = i["fp"][b], m["fp"][b]
            if len(fi) != len(fm):
                dis.append(("footprint-size", dict(op=k, buffer=b, impl=len(fi), model=len(fm))))
                continue
            if b == "bp":
                # contents are compared exactly above; here only: nothing is written outside the model's footprint
                bad = [t for t in range(len(fi)) if fi[t] == "1" and fm[t] == "0"]
            elif b == "wl":
                # cell N/2: the model allows the inverse transform to change it, (B) says it does not
                if fi[h] == "1":
                    bprobe.append(k)
                bad = [t for t in range(len(fi)) if t != h and fi[t] != fm[t]]
            else:
                bad = [t for t in range(len(fi)) if fi[t] != fm[t]]
            if bad:
                dis.append(("footprint", dict(op=k, kind=i["kind"], buffer=b, cell=bad[0], impl=fi, model=fm)))
        if i["same"] != m["same"]:
            dis.append(("verdict", dict(op=k, kind=i["kind"], impl_same_as_fresh=i["same"], model_same_as_fresh=m["same"])))
        if len(dis) > 6:
            break
    return dis, bprobe
