"""Operation histories on one ElectricField object (family hist, C18): generation, execution on
the implementation (harness/impl_hist.cpp) and on the extracted model (coq/Extract/md_hist.ml),
comparison.  Every random choice comes from the rng handed in."""
import struct
from fractions import Fraction
from vp_common import *
import vp_build, vp_coq

POW2 = [8, 16, 32, 64]
COMPOSITE = [12, 18, 24, 36, 45, 60]
PRIME = [7, 11, 17, 31, 61]
POW2_T = [128, 256]
COMPOSITE_T = [96, 100, 150, 210]
PRIME_T = [97, 127, 251]
BUFS = ["bp", "ff", "wl", "wp", "wake", "csr", "csri"]


def ncat(N):
    if N & (N - 1) == 0:
        return "pow2"
    if all(N % d for d in range(2, int(N ** 0.5) + 1)):
        return "prime"
    return "composite"


class HistCase:
    def __init__(self, cid, n, nb, N, sp, buckets, z, ops, note=""):
        self.cid, self.n, self.nb, self.N, self.sp = cid, n, nb, N, sp
        self.buckets, self.z, self.ops, self.note = list(buckets), list(z), list(ops), note
        # ops: (kind, cutoff float, profile list of nb*n floats)

    def first_offset(self):
        return min(self.buckets) * self.sp

    def overlapping(self):
        o = sorted(b * self.sp for b in self.buckets)
        return any(o[i + 1] - o[i] < self.n for i in range(len(o) - 1))

    def impl_text(self):
        s = ["hist %s %d %d %d %d %s" % (self.cid, self.n, self.nb, self.N, self.sp, " ".join(map(str, self.buckets)))]
        s.append(" ".join("%s %s" % (fhex(re), fhex(im)) for re, im in self.z))
        s.append(str(len(self.ops)))
        for k, cut, p in self.ops:
            s.append("%s %s %s" % (k, fhex(cut), " ".join(fhex(v) for v in p)))
        return "\n".join(s) + "\n"

    def model_text(self, fixed=True):
        # flags: 1 = the fixed tree (rz = true); 2 = also run the programs of Gen_EField.v and compare all buffers
        # (proved equal in Proofs/EFieldGenP.v; the run cross-checks the extraction on every fifth case, N <= 64)
        flags = (1 if fixed else 0) | (2 if (fixed and getattr(self, "gencheck", False)) else 0)
        s = ["hist %s %d %d %d %d %s %d %d" % (self.cid, self.n, self.nb, self.N, self.sp,
                                               " ".join(map(str, self.buckets)), flags, len(self.ops))]
        for k, cut, p in self.ops:
            s.append("%s %s %s" % (k, qtok(Fraction(cut)), " ".join(qtok(Fraction(v)) for v in p)))
        return "\n".join(s) + "\n"

    def replay(self):
        return dict(kind="hist", id=self.cid, n=self.n, nb=self.nb, N=self.N, spacing=self.sp, buckets=self.buckets,
                    impedance=[[fhex(a), fhex(b)] for a, b in self.z],
                    ops=[dict(op=k, cutoff=fhex(c), profile=[fhex(v) for v in p]) for k, c, p in self.ops],
                    note=self.note)

    @staticmethod
    def from_replay(d):
        return HistCase(d["id"], d["n"], d["nb"], d["N"], d["spacing"], d["buckets"],
                        [(float.fromhex(a), float.fromhex(b)) for a, b in d["impedance"]],
                        [(o["op"], float.fromhex(o["cutoff"]), [float.fromhex(v) for v in o["profile"]]) for o in d["ops"]],
                        d.get("note", ""))

    def describe(self):
        return dict(id=self.cid, n=self.n, nb=self.nb, N=self.N, spacing=self.sp, buckets=self.buckets,
                    history="".join(k for k, _, _ in self.ops), note=self.note)

    def with_ops(self, ops, cid=None):
        return HistCase(cid or self.cid, self.n, self.nb, self.N, self.sp, self.buckets, self.z, ops, self.note)


def rand_profile(rng, n, nb):
    c = rng.random()
    if c < 0.15:      # small integers (sums stay exact)
        return [float(rng.randint(-3, 5)) for _ in range(n * nb)]
    if c < 0.25:      # sparse
        return [f32(rng.uniform(0, 2)) if rng.random() < 0.3 else 0.0 for _ in range(n * nb)]
    return [f32(rng.uniform(-0.5, 2.0)) for _ in range(n * nb)]


def rand_impedance(rng, N):
    """(list of (re, im), kind).  Half of the cases have EXACT zeros: an impedance file shorter than the padded
    grid (zero from some index on), sparse zeros, real or imaginary part zero, Z(0) = 0 (the built-in models)"""
    z = [(f32(rng.uniform(0.25, 2.0)), f32(rng.uniform(-1.0, 1.0))) for _ in range(N)]
    c = rng.random()
    h = max(1, N // 2)
    if c < 0.5:
        return z, "dense"
    if c < 0.65:
        k = rng.randint(1, h)
        return [zz if i < k else (0.0, 0.0) for i, zz in enumerate(z)], "short"
    if c < 0.8:
        return [(0.0, 0.0) if rng.random() < 0.35 else zz for zz in z], "sparse"
    if c < 0.9:
        return [((0.0, zz[1]) if rng.random() < 0.3 else (zz[0], 0.0) if rng.random() < 0.3 else zz) for zz in z], "part-zero"
    return [(0.0, 0.0)] + z[1:], "z0"


def gen_case(rng, cid, Ns, maxlen=12, force=None):
    """force: None | 'ghost' (first bucket non-zero, CSR before Wake) | 'stale' (nb>1, Pad/Wake before CSR)"""
    N = rng.choice(Ns)
    nb = rng.choice([1, 1, 2, 2, 3])
    if force == "stale":
        nb = rng.choice([2, 3])
    # grid size and spacing so that every bucket fits: max(bucket)*sp + n <= N
    for _ in range(200):
        n = rng.randint(2, max(2, min(10, N // 2)))
        firstnz = rng.random() < 0.5 or force == "ghost"
        if nb == 1:
            buckets = [rng.randint(1, 3) if firstnz else 0]
        else:
            top = nb + rng.randint(0, 2)
            pool = list(range(1 if firstnz else 0, top + 1))
            if len(pool) < nb:
                continue
            buckets = rng.sample(pool, nb)
            if not firstnz and 0 not in buckets:
                buckets[rng.randrange(nb)] = 0
                if len(set(buckets)) < nb:
                    continue
            if rng.random() < 0.5:
                buckets.sort(reverse=rng.random() < 0.5)
        mb = max(buckets)
        if mb == 0:
            sp = rng.randint(0, N)
        else:
            hi = (N - n) // mb
            if hi < 1:
                continue
            lo = 1 if rng.random() < 0.2 else min(n, hi)      # lo < n: overlapping buckets
            sp = rng.randint(lo, hi)
            if rng.random() < 0.25:
                sp = hi                                           # last write ends at/near N
        if rng.random() < 0.08 and force is None:
            sp = 0                                                # the program's radiation field: no spacing
        if max(buckets) * sp + n <= N:
            break
    else:
        n, nb, buckets, sp = 2, 1, [0], 0
    z, zkind = rand_impedance(rng, N)
    L = rng.randint(1, maxlen)
    ops = []
    prev = None
    for k in range(L):
        kind = rng.choice("WPC")
        cut = 0.0 if rng.random() < 0.5 else f32(rng.uniform(1e7, 2e9))
        if prev is not None and rng.random() < 0.25:
            p = list(prev)
        else:
            p = rand_profile(rng, n, nb)
        prev = p
        ops.append((kind, cut if kind == "C" else 0.0, p))
    if force == "ghost":
        ops = ops[:-2] + [("C", 0.0, ops[-1][2]), ("W", 0.0, ops[-1][2])]
    if force == "stale":
        ops = ops[:-2] + [(rng.choice("PW"), 0.0, ops[-1][2]), ("C", 0.0, ops[-1][2])]
    if zkind != "dense" and force is None and rng.random() < 0.6:
        # wake histories with several different profiles: a harmonic whose impedance is exactly zero must be
        # rewritten (with zero) on every call - the inverse transform uses its input as scratch
        ops = [("W" if rng.random() < 0.8 else k, c, rand_profile(rng, n, nb) if i else p) for i, (k, c, p) in enumerate(ops)]
        if len(ops) < 2:
            ops.append(("W", 0.0, rand_profile(rng, n, nb)))
    c = HistCase(cid, n, nb, N, sp, buckets, z, ops, force or "random")
    c.zkind = zkind
    return c


def gen_cases(ctx, count, Ns, maxlen=12, prefix="h"):
    cases = []
    for i in range(count):
        force = None
        if i % 10 == 3:
            force = "ghost"
        elif i % 10 == 7:
            force = "stale"
        c = gen_case(ctx.rng, "%s%d" % (prefix, i), Ns, maxlen, force)
        cases.append(c)
        ctx.count("N:" + ncat(c.N))
        ctx.count("nb:%d" % c.nb)
        ctx.count("first-bucket:" + ("zero" if c.first_offset() == 0 else "nonzero"))
        ctx.count("len:%s" % ("1" if len(c.ops) == 1 else "2-4" if len(c.ops) <= 4 else "5-12" if len(c.ops) <= 12 else ">12"))
        if c.overlapping():
            ctx.count("overlapping-buckets")
        ctx.count("impedance:" + getattr(c, "zkind", "dense"))
    return cases


def _parse(out, model):
    res = {}
    cur = None
    for line in out.splitlines():
        p = line.split()
        if not p:
            continue
        if p[0] == "case":
            cur = []
            res[p[1]] = cur
        elif p[0] == "end":
            cur = None
        elif cur is None:
            continue
        elif p[0] == "op":
            if p[3] == "same":
                d = dict(k=int(p[1]), kind=p[2], same=p[4] == "1")
                q = p[5:]
            else:       # hist2: op <k> <obj> <kind> same ...
                d = dict(k=int(p[1]), obj=int(p[2]), kind=p[3], same=p[5] == "1")
                q = p[6:]
            if not d["same"] and len(q) >= 4:
                d["diff"] = dict(buffer=q[0], index=int(q[1]), got=q[2], expected=q[3])
            cur.append(d)
        elif p[0] in ("gen", "other", "self", "ptr"):
            cur[-1][p[0]] = p[1] == "1"
        elif p[0] == "bp":
            cur[-1]["bp"] = [parse_q(t) for t in p[1:]] if model else [parse_c(t) for t in p[1:]]
        elif p[0] == "B":
            cur[-1]["B"] = dict(re=parse_c(p[1]), im=parse_c(p[2]), wl_upper_zero=p[3] == "1", ff_upper_zero=p[4] == "1")
        elif p[0] == "fp":
            cur[-1]["fp"] = dict(zip(BUFS, ["" if m == "-" else m for m in p[1:]]))
    return res


def run_impl(tg, cases, timeout=1200):
    rc, out, err = run_driver(tg["impl_hist"], "".join(c.impl_text() for c in cases), env=vp_build.xdg_env(), timeout=timeout)
    if rc != 0:
        raise RuntimeError("impl_hist failed rc=%d: %s" % (rc, err[-2000:]))
    return _parse(out, False)


def _run_model_texts(texts, what, timeout=1200, workers=6):
    """the extracted model has no machine integers: spread the cases over a few processes"""
    from concurrent.futures import ThreadPoolExecutor
    chunks = [texts[i::workers] for i in range(workers)]
    chunks = [c for c in chunks if c]

    def one(ch):
        rc, out, err = run_driver(vp_coq.model_path("hist"), "".join(ch), timeout=timeout)
        if rc != 0:
            raise RuntimeError("model_hist (%s) failed rc=%d: %s" % (what, rc, err[-2000:]))
        return _parse(out, True)
    res = {}
    with ThreadPoolExecutor(max_workers=workers) as ex:
        for r in ex.map(one, chunks):
            res.update(r)
    return res


def run_model(cases, fixed=True, timeout=1200):
    for k, c in enumerate(cases):
        c.gencheck = (k % 5 == 0 and c.N <= 64) or len(cases) <= 3
    return _run_model_texts([c.model_text(fixed) for c in cases], "hist", timeout)


def compare(c, impl, model):
    """model vs implementation for one case -> list of (what, detail); (B)-probe observations
    are returned separately: list of op indices where the probe saw cell N/2 of wl change."""
    dis, bprobe = [], []
    h = c.N // 2
    if len(impl) != len(c.ops) or len(model) != len(c.ops):
        return [("length", dict(impl=len(impl), model=len(model), ops=len(c.ops)))], bprobe
    for k, (i, m) in enumerate(zip(impl, model)):
        if i["bp"] != m["bp"]:
            j = next(t for t in range(c.N) if i["bp"][t] != m["bp"][t])
            dis.append(("padded-profile", dict(op=k, kind=i["kind"], cell=j, impl=str(i["bp"][j]), model=str(m["bp"][j]))))
        for b in BUFS:
            fi, fm = i["fp"][b], m["fp"][b]
            if len(fi) != len(fm):
                dis.append(("footprint-size", dict(op=k, buffer=b, impl=len(fi), model=len(fm))))
                continue
            if b == "bp":
                # contents are compared exactly above; here only: nothing is written outside the model's footprint
                bad = [t for t in range(len(fi)) if fi[t] == "1" and fm[t] == "0"]
            elif b == "wl":
                # cell N/2: the model allows the inverse transform to change it, (B) says it does not
                if fi[h] == "1":
                    bprobe.append(k)
                bad = [t for t in range(len(fi)) if t != h and fi[t] != fm[t]]
            else:
                bad = [t for t in range(len(fi)) if fi[t] != fm[t]]
            if bad:
                dis.append(("footprint", dict(op=k, kind=i["kind"], buffer=b, cell=bad[0], impl=fi, model=fm)))
        if i["same"] != m["same"]:
            dis.append(("verdict", dict(op=k, kind=i["kind"], impl_same_as_fresh=i["same"], model_same_as_fresh=m["same"])))
        if m.get("gen") is False:
            dis.append(("generated-program", dict(op=k, kind=i["kind"], what="the programs of Gen_EField.v and the hand model give different states")))
        if len(dis) > 6:
            break
    return dis, bprobe


# ---------------------------------------------------------------------------------- two objects, getters

GETTERS = ["getWakePotentials", "getPaddedWakePotential", "getPaddedBunchProfiles", "getCSRSpectrum", "getCSRPower"]


class Hist2Case:
    """two field objects on one PhaseSpace; ops: (obj 1|2, kind W|P|C, cutoff, profile) or (obj, 'G', getter index)"""
    def __init__(self, cid, n, nb, buckets, objs, ops, note=""):
        self.cid, self.n, self.nb, self.buckets = cid, n, nb, list(buckets)
        self.objs = objs          # two dicts: N, sp, full, z
        self.ops, self.note = list(ops), note

    def impl_text(self):
        s = ["hist2 %s %d %d %s" % (self.cid, self.n, self.nb, " ".join(map(str, self.buckets)))]
        for o in self.objs:
            s.append("%d %d %d" % (o["N"], o["sp"], 1 if o["full"] else 0))
            s.append(" ".join("%s %s" % (fhex(re), fhex(im)) for re, im in o["z"]))
        s.append(str(len(self.ops)))
        for op in self.ops:
            if op[1] == "G":
                s.append("%d G %d" % (op[0], op[2]))
            else:
                s.append("%d %s %s %s" % (op[0], op[1], fhex(op[2]), " ".join(fhex(v) for v in op[3])))
        return "\n".join(s) + "\n"

    def model_text(self):
        s = ["hist2 %s %d %d %s %d %d %d %d %d" % (self.cid, self.n, self.nb, " ".join(map(str, self.buckets)),
                                                  self.objs[0]["N"], self.objs[0]["sp"], self.objs[1]["N"], self.objs[1]["sp"], len(self.ops))]
        for op in self.ops:
            if op[1] == "G":
                s.append("%d G %d" % (op[0], op[2]))
            else:
                s.append("%d %s %s %s" % (op[0], op[1], qtok(Fraction(op[2])), " ".join(qtok(Fraction(v)) for v in op[3])))
        return "\n".join(s) + "\n"

    def replay(self):
        return dict(kind="hist2", id=self.cid, n=self.n, nb=self.nb, buckets=self.buckets,
                    objects=[dict(N=o["N"], spacing=o["sp"], full=o["full"], impedance=[[fhex(a), fhex(b)] for a, b in o["z"]]) for o in self.objs],
                    ops=[dict(obj=op[0], op="G", getter=GETTERS[op[2]]) if op[1] == "G" else
                         dict(obj=op[0], op=op[1], cutoff=fhex(op[2]), profile=[fhex(v) for v in op[3]]) for op in self.ops],
                    note=self.note)

    @staticmethod
    def from_replay(d):
        objs = [dict(N=o["N"], sp=o["spacing"], full=o["full"], z=[(float.fromhex(a), float.fromhex(b)) for a, b in o["impedance"]])
                for o in d["objects"]]
        ops = [(o["obj"], "G", GETTERS.index(o["getter"])) if o["op"] == "G" else
               (o["obj"], o["op"], float.fromhex(o["cutoff"]), [float.fromhex(v) for v in o["profile"]]) for o in d["ops"]]
        return Hist2Case(d["id"], d["n"], d["nb"], d["buckets"], objs, ops, d.get("note", ""))

    def describe(self):
        return dict(id=self.cid, n=self.n, nb=self.nb, buckets=self.buckets,
                    objects=[dict(N=o["N"], spacing=o["sp"], full=o["full"]) for o in self.objs],
                    history=" ".join("%d%s" % (op[0], op[1] if op[1] != "G" else "g%d" % op[2]) for op in self.ops), note=self.note)

    def with_ops(self, ops, cid=None):
        return Hist2Case(cid or self.cid, self.n, self.nb, self.buckets, self.objs, ops, self.note)


def gen_case2(rng, cid, Ns, maxlen=14):
    nb = rng.choice([1, 2, 2, 3])
    for _ in range(300):
        same_len = rng.random() < 0.35          # two objects of the same transform length share FFTW wisdom/algorithm
        N1 = rng.choice(Ns)
        N2 = N1 if same_len else rng.choice(Ns)
        n = rng.randint(2, max(2, min(10, min(N1, N2) // 2)))
        buckets = rng.sample(range(0, nb + 2), nb)
        if rng.random() < 0.5:
            buckets.sort(reverse=True)          # the order main() produces
        mb = max(buckets)
        sps = []
        for N in (N1, N2):
            hi = (N - n) // mb if mb else N
            sps.append(rng.randint(0 if mb == 0 else 1, max(1, hi)) if hi >= 1 else None)
        if None in sps:
            continue
        # the program's radiation field: spacing 0, built without the wake transform
        rdtn = rng.random() < 0.5
        if rdtn:
            sps[0] = 0
        if all(mb * sp + n <= N for sp, N in zip(sps, (N1, N2))):
            break
    else:
        n, nb, buckets, N1, N2, sps, rdtn = 2, 1, [0], Ns[0], Ns[0], [0, 0], False
    objs = []
    for i, (N, sp) in enumerate(zip((N1, N2), sps)):
        z, zk = rand_impedance(rng, N)
        objs.append(dict(N=N, sp=sp, full=not (rdtn and i == 0 and rng.random() < 0.7), z=z, zkind=zk))
    L = rng.randint(2, maxlen)
    ops, prev = [], None
    for k in range(L):
        w = rng.choice([1, 2])
        if rng.random() < 0.3:
            g = rng.randrange(5)
            ops.append((w, "G", g))
            continue
        kinds = "WPC" if objs[w - 1]["full"] else "PC"
        kind = rng.choice(kinds)
        cut = 0.0 if rng.random() < 0.5 else f32(rng.uniform(1e7, 2e9))
        p = list(prev) if (prev is not None and rng.random() < 0.25) else rand_profile(rng, n, nb)
        prev = p
        ops.append((w, kind, cut if kind == "C" else 0.0, p))
    return Hist2Case(cid, n, nb, buckets, objs, ops, "two-objects" + ("/rdtn" if rdtn else ""))


def gen_cases2(ctx, count, Ns, maxlen=14, prefix="d"):
    cases = []
    for i in range(count):
        c = gen_case2(ctx.rng, "%s%d" % (prefix, i), Ns, maxlen)
        cases.append(c)
        ctx.count("two-objects:" + ("same-length" if c.objs[0]["N"] == c.objs[1]["N"] else "different-length"))
        ctx.count("two-objects:nb=%d" % c.nb)
        if not c.objs[0]["full"]:
            ctx.count("two-objects:object-1-without-wake-transform")
        ctx.count("two-objects:getter-calls", sum(1 for o in c.ops if o[1] == "G"))
    return cases


def run_impl2(tg, cases, timeout=1200):
    rc, out, err = run_driver(tg["impl_hist"], "".join(c.impl_text() for c in cases), env=vp_build.xdg_env(), timeout=timeout)
    if rc != 0:
        raise RuntimeError("impl_hist (hist2) failed rc=%d: %s" % (rc, err[-2000:]))
    return _parse(out, False)


def run_model2(cases, timeout=1200):
    return _run_model_texts([c.model_text() for c in cases], "hist2", timeout)


def compare2(c, impl, model):
    """two-object case: padded buffer exactly, the same-as-fresh verdicts, the other object untouched, getters pure"""
    dis = []
    if len(impl) != len(c.ops) or len(model) != len(c.ops):
        return [("length", dict(impl=len(impl), model=len(model), ops=len(c.ops)))]
    for k, (i, m) in enumerate(zip(impl, model)):
        if i["bp"] != m["bp"]:
            N = c.objs[i["obj"] - 1]["N"]
            j = next(t for t in range(N) if i["bp"][t] != m["bp"][t])
            dis.append(("padded-profile", dict(op=k, obj=i["obj"], kind=i["kind"], cell=j, impl=str(i["bp"][j]), model=str(m["bp"][j]))))
        if i["same"] != m["same"]:
            dis.append(("verdict", dict(op=k, obj=i["obj"], kind=i["kind"], impl_same_as_fresh=i["same"], model_same_as_fresh=m["same"])))
        if i.get("other") != m.get("other"):
            dis.append(("other-object", dict(op=k, obj=i["obj"], kind=i["kind"], impl_untouched=i.get("other"), model_untouched=m.get("other"))))
        if i["kind"] == "G":
            if i.get("self") != m.get("self"):
                dis.append(("getter-pure", dict(op=k, obj=i["obj"], impl_unchanged=i.get("self"), model_unchanged=m.get("self"))))
            if not i.get("ptr"):
                dis.append(("getter-buffer", dict(op=k, obj=i["obj"], what="the getter does not return the buffer the model names")))
        if len(dis) > 6:
            break
    return dis
