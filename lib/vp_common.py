"""Common machinery of the checks: context (seed, tier, counters, evidence, violations,
known findings), exact number conversions, running the two drivers."""
import json, os, random, struct, subprocess, sys, time, hashlib
from fractions import Fraction

VERIF = os.path.dirname(os.path.dirname(os.path.abspath(__file__)))
REPO = os.environ.get("VERIF_REPO", "/repo")
sys.path.insert(0, os.path.join(VERIF, "lib"))
import vp_build

# ------------------------------------------------------------------------------------ numbers

def f32(x):
    """nearest binary32 value, as a Python float"""
    return struct.unpack("f", struct.pack("f", x))[0]


def fhex(x):
    return float(x).hex()


def parse_c(tok):
    """token printed by the impl driver with %a -> Fraction, or the strings 'nan'/'inf'/'-inf'"""
    t = tok.lower()
    if "nan" in t:
        return "nan"
    if "inf" in t:
        return "-inf" if t.startswith("-") else "inf"
    return Fraction(float.fromhex(tok))


def qtok(q):
    q = Fraction(q)
    s = "-" if q < 0 else ""
    return "%s%x/%x" % (s, abs(q.numerator), q.denominator)


def parse_q(tok):
    if "/" in tok:
        a, b = tok.split("/")
        return Fraction(int(a, 16), int(b, 16))
    return Fraction(int(tok, 16))


def ulp32(x):
    """unit in the last place of binary32 at magnitude |x| (Fraction)"""
    x = abs(Fraction(x))
    if x == 0:
        return Fraction(1, 2 ** 149)
    import math
    e = math.floor(math.log2(float(x))) if x > 0 else -126
    # correct e exactly
    while Fraction(2) ** e > x:
        e -= 1
    while Fraction(2) ** (e + 1) <= x:
        e += 1
    e = max(e, -126)
    return Fraction(2) ** (e - 23)


# ------------------------------------------------------------------------------------ drivers

def run_driver(path, text, env=None, timeout=600):
    r = subprocess.run([path], input=text, capture_output=True, text=True, timeout=timeout, env=env)
    return r.returncode, r.stdout, r.stderr


def parse_cases(out):
    """'case <id>' ... 'end' blocks -> {id: {tag: [tokens] or list of token lists}}"""
    res = {}
    cur = None
    for line in out.splitlines():
        p = line.split()
        if not p:
            continue
        if p[0] == "case":
            cur = {}
            res[p[1]] = cur
        elif p[0] == "end":
            cur = None
        elif cur is not None:
            cur.setdefault(p[0], []).append(p[1:])
    return res


def model_driver_path(fam="kick"):
    return os.path.join(VERIF, "coq", "Extract", "bin", "model_" + fam)


# ------------------------------------------------------------------------------------ context

class Downgradable:
    """the generated files of a check whose failing translator may be downgraded to the correspondence:
    a list of names, or {"all_except": [names]} (every generated file of the check's closure but these)"""

    def __init__(self, spec):
        self.names = set(spec) if isinstance(spec, list) else set()
        self.excluded = set(spec.get("all_except", [])) if isinstance(spec, dict) else None

    def __contains__(self, g):
        return g in self.names or (self.excluded is not None and g not in self.excluded)

    def __bool__(self):
        return bool(self.names) or self.excluded is not None


class Ctx:
    def __init__(self, pid, tier, seed, level="proof"):
        self.pid, self.tier, self.seed, self.level = pid, tier, seed, level
        # generated files whose failing translator may be downgraded to the correspondence in this check (DESIGN 2.2 / 10.8):
        # lib/downgradable.json, decided by the experiment described there
        try:
            with open(os.path.join(os.path.dirname(os.path.abspath(__file__)), "downgradable.json")) as f:
                self.downgradable = Downgradable(json.load(f).get(pid))
        except (OSError, ValueError):
            self.downgradable = Downgradable(None)
        self.rng = random.Random(seed * 1000003 + int(hashlib.sha1(pid.encode()).hexdigest()[:6], 16))
        self.t0 = time.time()
        self.evaluations = 0
        self.nontrivial = set()
        self.samples = []
        self.obligations = []      # (name, discharged:bool, assumptions:list)
        self.trusted = set()
        self.violations = []       # dicts
        self.known = []
        self.notes = []
        self.dist = {}
        self.assumptions = []
        self.extra = {}
        self.rule = ""
        self.checker_cmd = ""
        self._targets = {}
        os.makedirs(os.path.join(VERIF, "replays"), exist_ok=True)
        os.makedirs(os.path.join(VERIF, "evidence"), exist_ok=True)

    def log(self, msg):
        print("[%s %.1fs] %s" % (self.pid, time.time() - self.t0, msg), flush=True)

    def quick(self):
        return self.tier == "quick"

    def build(self, flavour="std", harness=("impl_kick",), want_binary=False):
        key = (flavour, harness, want_binary)
        if key not in self._targets:
            self._targets[key] = vp_build.build(flavour, harness=harness, want_binary=want_binary, log=self.log)
        return self._targets[key]

    def count(self, kind, n=1):
        self.dist[kind] = self.dist.get(kind, 0) + n

    def case_done(self, key, nontrivial):
        self.evaluations += 1
        if nontrivial:
            self.nontrivial.add(key)

    def sample(self, s):
        if len(self.samples) < 6:
            self.samples.append(s)

    def violation(self, kind, what, case, observed=None, expected=None, sig=None, theorem=None,
                  coq_error=None, no_input=False):
        """kind: impl-oracle | correspondence | proof | translation"""
        v = dict(property=self.pid, kind=kind, what=what, case=case, observed=observed,
                 expected=expected, sig=sig or {}, theorem=theorem, coq_error=coq_error,
                 no_failing_input_found=no_input,
                 how_to_rerun="VERIF_SEED=%d bin/check %s --tier %s" % (self.seed, self.pid, self.tier))
        self.violations.append(v)

    # ---------------------------------------------------------------- finish
    def finish(self):
        kf = load_known()
        new = []
        shown = set()
        for v in self.violations:
            m = match_known(kf, v)
            if m is not None:
                if m["key"] not in shown:
                    shown.add(m["key"])
                    print("KNOWN-FINDING: property=%s %s" % (self.pid, m["what"]))
                self.known.append(m["key"])
            else:
                new.append(v)
        # several violations of one cause: report each distinct (kind, sig) once
        uniq = {}
        for v in new:
            k = json.dumps([v["kind"], v["sig"], v["theorem"]], sort_keys=True, default=str)
            uniq.setdefault(k, v)
        rc = 0
        n = 0
        for v in uniq.values():
            n += 1
            path = os.path.join(VERIF, "replays", "%s-%d.json" % (self.pid, n))
            with open(path, "w") as f:
                json.dump(v, f, indent=1, default=str)
            tail = " no-failing-input-found" if v["no_failing_input_found"] else ""
            print("VIOLATION property=%s replay=%s%s" % (self.pid, path, tail))
            rc = 1
        self.write_evidence(len(uniq))
        return rc

    def write_evidence(self, nviol):
        ob = len(self.obligations)
        dis = sum(1 for o in self.obligations if o[1])
        cov = {
            "obligations": ob, "discharged": dis,
            "checker_cmd": self.checker_cmd or "coqc -Q coq Inovesa coq/Props/Properties_%s.v (full .vo build of all dependencies via make)" % self.pid,
            "trusted_base": sorted(self.trusted),
            "theorems": [{"name": o[0], "discharged": o[1], "assumptions": o[2]} for o in self.obligations],
            "evaluations": self.evaluations,
            "distinct_nontrivial": len(self.nontrivial),
            "rule": self.rule,
            "samples": self.samples if self.samples else ["(no correspondence cases in this run)"],
            "input_distribution": self.dist,
            "known_findings_seen": sorted(set(self.known)),
            "notes": self.notes,
        }
        cov.update(self.extra)
        ev = {"property_id": self.pid, "tier": self.tier, "seed": self.seed, "level": self.level,
              "coverage": cov, "assumptions": self.assumptions, "wall_s": round(time.time() - self.t0, 2),
              "violations": nviol}
        # runs against a scratch copy of the repository (bin/seedtest, bin/benigntest) must not overwrite the evidence of
        # /repo: they set VERIF_EVIDENCE_DIR
        evdir = os.environ.get("VERIF_EVIDENCE_DIR") or os.path.join(VERIF, "evidence")
        os.makedirs(evdir, exist_ok=True)
        with open(os.path.join(evdir, self.pid + ".json"), "w") as f:
            json.dump(ev, f, indent=1, default=str)


def load_known():
    p = os.path.join(VERIF, "known_findings.jsonl")
    res = []
    if os.path.exists(p):
        for line in open(p):
            line = line.strip()
            if line and not line.startswith("#"):
                res.append(json.loads(line))
    return res


def match_known(kf, v):
    for e in kf:
        if e.get("status") != "open" or e.get("property") != v["property"]:
            continue
        m = e.get("match", {})
        if all(v["sig"].get(k) == val for k, val in m.items()) and m:
            return e
    return None


def generic_downgrade(ctx, coq, disagreements, kf):
    """Downgrade rule of DESIGN 2.2, for the generated files a check declares in `ctx.downgradable` (those whose content is
    ALSO exercised by the check's correspondence and oracles - tie 2): when the only thing wrong with the proof stage is that
    such translators no longer recognise the source (a restructuring outside their idiom), the development still builds on the
    committed last-good copies, every theorem still checks, the extraction works, this run's correspondence shows no
    disagreement, no oracle reports an unlisted violation and cases were evaluated, then the property is shown through tie 2
    (hand-written model + correspondence), the downgrade is recorded in the evidence and the check passes.
    VERIF_DOWNGRADE=none switches the rule off, =all applies it to every generated file (experiments only)."""
    if coq is None or coq.get("ok"):
        return coq
    mode = os.environ.get("VERIF_DOWNGRADE", "")
    if mode == "none":
        return coq
    failed = [g for g, s in coq.get("gen", {}).items() if s.startswith("failed")]
    allowed = getattr(ctx, "downgradable", None) or ()
    if not failed or not (mode == "all" or all(g in allowed for g in failed)):
        return coq
    pr = coq.get("props", {})
    clean = coq.get("make_ok") and pr.get("ok", not pr.get("error")) and not pr.get("error") and not pr.get("bad_axioms") \
        and not coq.get("forbidden") and coq.get("extract_ok")
    unlisted = [v for v in ctx.violations if match_known(kf, v) is None]
    if not clean or disagreements or unlisted or ctx.evaluations <= 0:
        return coq
    for g in failed:
        ctx.extra.setdefault("translators", {})[g] = "downgraded-to-correspondence (" + coq["gen"][g][:200] + ")"
        ctx.notes.append("%s: translator failed; the theorems check on the last-good generated file and the hand-written model agrees "
                         "with the implementation on every case of this run (no disagreement, every oracle holds): downgraded to tie 2" % g)
    return dict(coq, ok=True)


def conclude(ctx, coq, disagreements, corr_sig=None):
    """Decision rule (DESIGN 2.4) once the oracles have run: a broken obligation or a
    correspondence disagreement for which no failing input was found is still a violation."""
    kf = load_known()
    # a failing input that is a listed open finding does not explain a broken proof/translator/
    # correspondence: only unlisted oracle violations count as "a failing input was found"
    have_oracle = any(v["kind"] == "impl-oracle" and match_known(kf, v) is None for v in ctx.violations)
    coq = generic_downgrade(ctx, coq, disagreements, kf)
    if coq is not None and not coq["ok"]:
        pr = coq["props"]
        what = []
        if not coq["make_ok"]:
            what.append("a dependency of the property file no longer compiles")
        if pr.get("error"):
            what.append("Props file does not check")
        if coq["forbidden"]:
            what.append("forbidden keywords: %s" % coq["forbidden"])
        bad_gen = {g: s for g, s in coq["gen"].items() if s.startswith("failed")}
        if bad_gen:
            what.append("translator failed: %s" % bad_gen)
        if pr.get("bad_axioms"):
            what.append("axioms outside the trusted base: %s" % pr["bad_axioms"])
        if not coq["extract_ok"]:
            what.append("extraction failed")
        err = (coq["make_out"][-1500:] if not coq["make_ok"] else "") + (pr.get("error") or "") + \
              (coq.get("extract_out") or "")[-800:]
        ctx.notes.append("proof stage broken: " + "; ".join(what))
        if not have_oracle:
            ctx.violation("proof", "; ".join(what), case=None, theorem=pr.get("failed_theorem") or
                          "Properties_%s (all theorems)" % ctx.pid, coq_error=err, no_input=True,
                          sig={"stage": "proof"})
    if disagreements and not have_oracle:
        d = disagreements[0]
        ctx.violation("correspondence", "model and implementation disagree on %d case(s); the property "
                      "oracle found no failing input" % len(disagreements), case=d.get("case"),
                      observed=d.get("detail"), no_input=True, sig=corr_sig or d.get("sig") or {"stage": "correspondence"})
