"""C05 one-step cases: generator, runners (implementation harness impl_haiss, extracted model
model_haiss), independent reference for the wake potential, comparators and the force-law
oracle.  nb = 1..3 bunches with unequal filling, in buckets with gaps, as main() sets a filling
pattern up (bucket numbers in decreasing order, spacing_bins > 0, transform length >=
max(bucket)*spacing + n)."""
import cmath, math, os
from fractions import Fraction
from vp_common import *
import vp_build, vp_coq

C_LIGHT = 299792458.0          # physcons::c (inc/defines.hpp)
EPS = Fraction(1, 2 ** 24)
TOK = {"MWake": "W", "MRF": "R", "MDrift": "D", "MFP": "F"}


def centre(it):
    return (it - 1) // 2


class StepCase:
    def __init__(self, cid, **kw):
        self.cid = cid
        self.__dict__.update(kw)

    def ztoks(self):
        z = self.z
        if z["type"] == "const":
            return "const %s %s" % (fhex(z["zr"]), fhex(z["zi"]))
        if z["type"] == "rw":
            return "rw %s %s %s" % (fhex(z["s"]), fhex(z["xi"]), fhex(z["radius"]))
        return "tab " + " ".join("%s %s" % (fhex(a), fhex(b)) for a, b in z["table"])

    def impl_text(self, order, ib=None):
        ib = self.Ib if ib is None else ib
        return "step %s %d %d %d %d %d %s %s %s %s %s %s %s %s %s %s %s %s %s %s %d %s %s %s\n" % (
            self.cid, self.n, self.nb, self.it, self.nmax, self.spacing, " ".join(str(b) for b in self.buckets),
            " ".join(fhex(f32(v)) for v in self.filling), " ".join(order), self.ztoks(),
            fhex(ib), fhex(self.E0), fhex(self.sE), fhex(self.dt), fhex(self.f_rev), fhex(self.f_RF),
            fhex(self.bl), fhex(self.pqsize), fhex(self.angle), fhex(self.e1), self.deriv,
            fhex(getattr(self, "shx", 0.0)), fhex(getattr(self, "shy", 0.0)),
            " ".join(fhex(v) for v in self.data))

    def replay(self):
        d = dict(kind="step", id=self.cid, n=self.n, nb=self.nb, buckets=list(self.buckets), spacing=self.spacing,
                 filling=list(self.filling), it=self.it, nmax=self.nmax, ztype=self.z["type"],
                 z={k: (v if k != "table" else [[fhex(a), fhex(b)] for a, b in v]) for k, v in self.z.items()},
                 Ib=fhex(self.Ib), E0=fhex(self.E0), sE=fhex(self.sE), dt=fhex(self.dt), f_rev=fhex(self.f_rev),
                 f_RF=fhex(self.f_RF), bl=fhex(self.bl), pqsize=fhex(self.pqsize), angle=fhex(self.angle),
                 steps=self.steps, e1=fhex(self.e1), deriv=self.deriv, target_F=self.target_F,
                 shift_x_cells=getattr(self, "shx", 0.0), shift_y_cells=getattr(self, "shy", 0.0),
                 data=[fhex(v) for v in self.data])
        return d

    def describe(self):
        return dict(id=self.cid, n=self.n, nb=self.nb, buckets=list(self.buckets), spacing=self.spacing,
                    filling=[round(v, 3) for v in self.filling], it=self.it, nmax=self.nmax, ztype=self.z["type"], steps=self.steps,
                    target_distortion=round(self.target_F, 3), Ib=self.Ib)


def case_from_replay(rp):
    z = dict(rp["z"])
    if "table" in z:
        z["table"] = [(float.fromhex(a), float.fromhex(b)) for a, b in z["table"]]
    fl = lambda k: float.fromhex(rp[k])
    nb = rp.get("nb", 1)
    return StepCase(rp["id"], n=rp["n"], nb=nb, buckets=list(rp.get("buckets", [0])), spacing=rp.get("spacing", 0),
                    filling=list(rp.get("filling", [1.0])), it=rp["it"], nmax=rp["nmax"], z=z, Ib=fl("Ib"), E0=fl("E0"), sE=fl("sE"),
                    dt=fl("dt"), f_rev=fl("f_rev"), f_RF=fl("f_RF"), bl=fl("bl"), pqsize=fl("pqsize"),
                    angle=fl("angle"), steps=rp["steps"], e1=fl("e1"), deriv=rp["deriv"], target_F=rp["target_F"],
                    shx=float(rp.get("shift_x_cells", 0.0)), shy=float(rp.get("shift_y_cells", 0.0)),
                    data=[float.fromhex(v) for v in rp["data"]])


def blob(rng, n, dq, mx, my, weight, cx=None, sx=None):
    """one bunch: a smooth blob well inside the grid, zero outside a box; integral [weight] (filling share)"""
    cx = (n - 1) / 2 + rng.uniform(-1.5, 1.5) if cx is None else cx
    cy = (n - 1) / 2 + rng.uniform(-1.0, 1.0)
    sx = rng.uniform(0.7, 1.3) / dq if sx is None else sx
    sy = rng.uniform(0.6, 1.1) / dq
    skew = rng.uniform(-0.3, 0.3)
    data = [0.0] * (n * n)
    tot = 0.0
    for x in range(mx, n - mx):
        for y in range(my, n - my):
            u, v = (x - cx) / sx, (y - cy) / sy
            val = math.exp(-0.5 * (u * u + v * v) + skew * u * v) * (1 + 0.3 * rng.uniform(-1, 1))
            data[x * n + y] = val
            tot += val
    return [f32(weight * v / (tot * dq * dq)) for v in data]


def gen_layout(rng, n, multi):
    """(nb, buckets, spacing_bins, filling, nmax) as main() derives them from a filling pattern: bucket numbers
    decreasing (bucketnumbers.push_back(filling.size()-1-i)), gaps allowed, spacing_bins >= n, the transform long enough
    for the last bucket's block (main.cpp: max(ceil(n*nbuckets*spacing_ps), (nbuckets-1)*spacing_bins + n), optionally
    rounded up to a power of two)"""
    if not multi:
        return 1, [0], rng.choice([0, n, n + 3]), [1.0], rng.choice([32, 64, 128, 48])
    nb = rng.choice([2, 2, 3])
    nbuckets = nb + rng.choice([0, 0, 1, 2])           # empty buckets in between
    occ = sorted(rng.sample(range(nbuckets), nb), reverse=True)
    if nbuckets - 1 not in occ and rng.random() < 0.5:
        occ[0] = nbuckets - 1
    spacing = n + rng.randint(0, n)
    need = max(occ) * spacing + n
    c = rng.random()
    if c < 0.4:
        nmax = 1
        while nmax < need:
            nmax *= 2
    elif c < 0.7:
        nmax = need + rng.randint(0, 9)                 # any length, odd ones included (no Nyquist bin)
    else:
        nmax = max(need, nbuckets * spacing + rng.randint(0, n))
    # unequal filling, e.g. {0.6, 0.4}: shares differ by at least 25 %
    w = sorted([rng.uniform(0.5, 1.0) * (0.55 ** k) for k in range(nb)], reverse=rng.random() < 0.5)
    tot = sum(w)
    return nb, occ, spacing, [v / tot for v in w], nmax


def gen_case(rng, cid, ztype, multi=False):
    n = rng.randint(12, 24) if not multi else rng.randint(12, 18)
    it = rng.choice([2, 3, 4, 4])
    nb, buckets, spacing, filling, nmax = gen_layout(rng, n, multi)
    steps = int(round(math.exp(rng.uniform(math.log(30), math.log(2000)))))
    angle = f32(2 * math.pi / steps)
    E0 = 1.3e9 * rng.uniform(0.5, 2)
    sE = 4.7e-4 * rng.uniform(0.5, 2)
    f_rev = 9e6 * rng.uniform(0.3, 3)
    f_RF = f_rev * rng.choice([20, 50, 184])
    fs = rng.uniform(5e3, 1e5)
    dt = 1.0 / (fs * steps)
    bl = rng.uniform(1e-3, 5e-3)
    pqsize = float(rng.choice([8, 10, 12]))
    e1 = math.exp(rng.uniform(math.log(1e-4), math.log(0.05)))
    deriv = rng.choice([3, 4])
    if ztype == "const":
        z = dict(type="const", zr=f32(rng.uniform(10, 2000)), zi=f32(rng.choice([0.0, rng.uniform(-500, 500)])))
    elif ztype == "rw":
        z = dict(type="rw", s=rng.uniform(1e6, 6e7), xi=rng.choice([0.0, rng.uniform(-0.5, 2.0)]),
                 radius=rng.uniform(0.005, 0.03))
    else:
        # broadband-resonator-like table, non-zero above N/2 (must be ignored by the code), Z_0 real
        kr, Q, R = rng.uniform(2, nmax / 4), rng.uniform(0.5, 3), rng.uniform(100, 3000)
        tab = []
        for k in range(nmax):
            if k == 0:
                v = complex(rng.uniform(0, 50), rng.uniform(-50, 50))
            else:
                v = R / complex(1, Q * (k / kr - kr / k)) + complex(rng.uniform(0, 20), rng.uniform(-20, 20))
            tab.append((f32(v.real), f32(v.imag)))
        z = dict(type="tab", table=tab)
    # charge density per bunch: a blob well inside the grid, zero outside a box; bunch b holds its filling share.
    # Multi-bunch: clearly different profiles (centre, width, share) so that the wakes of the bunches differ.
    dq = pqsize / (n - 1)
    mx, my = 2, (3 if n < 16 else 4)
    data = []
    for b in range(nb):
        if nb == 1:
            data += blob(rng, n, dq, mx, my, 1.0)
        else:
            cx = (n - 1) / 2 + (-1.5, 1.2, 0.0)[b % 3] + rng.uniform(-0.3, 0.3)
            sx = (0.7, 1.25, 1.0)[b % 3] * rng.uniform(0.9, 1.1) / dq
            data += blob(rng, n, dq, mx, my, filling[b], cx=cx, sx=sx)
    target_F = math.exp(rng.uniform(math.log(0.1), math.log(1.5)))
    # grid shifts as --PhaseSpaceShiftX/Y (in cells; main.cpp: qcenter = -shift*pqsize/(n-1)): the zero bins of the two
    # axes differ in 40 % of the cases (the RF force is centred on the zero bin of the POSITION axis)
    shx = shy = 0.0
    c = rng.random()
    if c < 0.25:
        shx, shy = rng.choice([-2.0, -1.0, 1.0, 1.5, 2.0, 0.5]), 0.0
    elif c < 0.40:
        shx, shy = rng.choice([-1.5, 1.0, 2.0]), rng.choice([-1.0, 0.5, 3.0])
    elif c < 0.50:
        shx = shy = rng.choice([-1.0, 1.0, 2.0])
    return StepCase(cid, shx=shx, shy=shy, n=n, nb=nb, buckets=buckets, spacing=spacing, filling=filling, it=it, nmax=nmax,
                    z=z, Ib=1e-3, E0=E0, sE=sE, dt=dt, f_rev=f_rev, f_RF=f_RF, bl=bl,
                    pqsize=pqsize, angle=angle, steps=steps, e1=e1, deriv=deriv, target_F=target_F, data=data)


def gen_cases(ctx, count):
    kinds = ["const", "rw", "tab"]
    cs = []
    for i in range(count):
        zt = kinds[i % 3]
        multi = (i % 5) in (1, 3)            # 40 % of the cases hold 2 or 3 bunches
        cs.append(gen_case(ctx.rng, "s%d" % i, zt, multi=multi))
        ctx.count("step:%s:it%d" % (zt, cs[-1].it))
        ctx.count("step:nb%d" % cs[-1].nb)
    return cs


# ------------------------------------------------------------------------------------ running

def run_impl(ctx, cases, order, ibs=None):
    tg = ctx.build(harness=("impl_haiss", "h5cat"), want_binary=True)
    text = "".join(c.impl_text(order, None if ibs is None else ibs[c.cid]) for c in cases)
    rc, out, err = run_driver(tg["impl_haiss"], text, env=vp_build.xdg_env(), timeout=900)
    if rc != 0:
        raise RuntimeError("impl_haiss failed rc=%d: %s" % (rc, err[-800:]))
    return parse_cases(out)


def fl(tok):
    return float.fromhex(tok)


def scale_currents(ctx, cases, order):
    """first pass with Ib = 1 mA; then the current that gives the wanted potential-well distortion
    F = max|W|*delta_E/dtheta (W is linear in Ib)"""
    res = run_impl(ctx, cases, order)
    for c in cases:
        r = res[c.cid]
        wp = [fl(t) for t in r["wp"][0]]
        peak = max(abs(v) for v in wp)
        delta = c.pqsize / (c.n - 1)
        want = c.target_F * c.angle / delta
        if peak > 0 and math.isfinite(peak):
            c.Ib = c.Ib * want / peak
    return res


def run_model(ctx, cases, impl):
    text = []
    for c in cases:
        r = impl[c.cid]
        wp = [Fraction(fl(t)) for t in r["wp"][0]]
        t = Fraction(fl(r["tan"][0][0]))
        xc = Fraction(fl(r["axes"][0][4]))
        dro = [Fraction(fl(x)) for x in r["droff"][0]]
        text.append("step %s %d %d %d %s %s %s %s %s\n" % (
            c.cid, c.n, c.nb, c.it, " ".join(qtok(v) for v in wp), qtok(t), qtok(xc),
            " ".join(qtok(v) for v in dro), " ".join(qtok(Fraction(v)) for v in c.data)))
        sz, dE1 = Fraction(fl(r["axes"][0][2])), Fraction(fl(r["axes"][0][1]))
        text.append("scaling %s_sc %s\n" % (c.cid, " ".join(qtok(Fraction(v)) for v in (
            c.Ib, c.dt, C_LIGHT, sz, dE1, c.sE, c.E0, float(c.nmax)))))
    rc, out, err = run_driver(vp_coq.model_path("haiss"), "".join(text), timeout=1800)
    if rc != 0:
        raise RuntimeError("model_haiss failed rc=%d: %s" % (rc, err[-800:]))
    return parse_cases(out)


def model_order(ctx):
    """the generated step order as the extracted model reports it (tokens W R D F)"""
    n = 4
    text = "step probe %d 1 2 %s 0 0 %s %s\n" % (n, " ".join(["0"] * n), " ".join(["0"] * n), " ".join(["0"] * (n * n)))
    rc, out, err = run_driver(vp_coq.model_path("haiss"), text, timeout=120)
    if rc != 0:
        raise RuntimeError("model_haiss failed: " + err[-500:])
    return parse_cases(out)["probe"]["order"][0]


# ------------------------------------------------------------------------------------ reference

def padded_train(c, r):
    """the zero-padded train of the bunch profiles, built here from the per-bunch projections the implementation
    reports: profile b at cells bucket_b*spacing .. +n of a vector of nmax zeros (bucket placement: C06's theorem)"""
    N, n = c.nmax, c.n
    proj = [fl(t) for t in r["proj"][0]]
    pad = [0.0] * N
    for b, bk in enumerate(c.buckets):
        for x in range(n):
            pad[bk * c.spacing + x] = proj[b * n + x]
    return pad


def wake_reference(c, r):
    """double-precision evaluation of scaling * c2r(Z * r2c(padded train)) with FFTW's c2r semantics on a half
    spectrum, read back at cells bucket_b*spacing + x for every bunch b; the padded train is built here from the
    per-bunch projections (not taken from the implementation's buffer), Z is read from the implementation, the
    scaling factor is computed from the physical parameters (formula of C05.2).  Returns (W[nb*n], cond, scaling)."""
    N, n = c.nmax, c.n
    pad = padded_train(c, r)
    zt = r["imp"][0]
    Z = [complex(fl(zt[2 * k]), fl(zt[2 * k + 1])) for k in range(N // 2 + 1)]
    delta_E = c.pqsize / (n - 1)
    scaling = c.Ib * c.dt * C_LIGHT / c.bl / (delta_E * c.sE * c.E0) / N
    nz = [(u, v) for u, v in enumerate(pad) if v != 0.0]
    L = []
    for k in range(N // 2):
        F = sum(v * cmath.exp(-2j * math.pi * u * k / N) for u, v in nz)
        L.append(Z[k] * F)
    nyq = complex(fl(r["nyq"][0][0]), fl(r["nyq"][0][1]))
    W, cond = [], scaling * (abs(L[0]) + 2 * sum(abs(v) for v in L[1:]) + abs(nyq))
    for bk in c.buckets:
        for x in range(n):
            j = bk * c.spacing + x
            y = L[0].real + 2 * sum((L[k] * cmath.exp(2j * math.pi * j * k / N)).real for k in range(1, N // 2))
            if N % 2 == 0:
                y += nyq.real * (-1) ** j
            else:       # odd N: cell floor(N/2) is an ordinary frequency the code leaves unwritten (zero on a fresh object)
                y += 2 * (nyq * cmath.exp(2j * math.pi * j * (N // 2) / N)).real
            W.append(scaling * y)
    return W, cond, scaling


def split32(n, o):
    """(jd, f) as KickMap::updateSM computes them from the float sum n/2 + o"""
    p = Fraction(f32(float(n // 2) + float(o)))      # both exactly representable -> one rounding
    jd = int(p) if p >= 0 else -int(-p)
    return jd, p - jd, p


def row_fits(n, it, o, a, b):
    jd, f, p = split32(n, o)
    cen = centre(it)
    lo, hi = jd - cen - n // 2, jd + (it - 1) - cen - n // 2
    ok = 0 <= jd - cen and jd + (it - 1) - cen < n and 0 <= a <= b <= n and 0 <= a - hi and b - lo <= n
    return ok, a - hi, b - lo


def row_moments(grid, n, x, b=0):
    row = grid[(b * n + x) * n:(b * n + x + 1) * n]
    m0 = sum(row)
    m1 = sum(y * v for y, v in enumerate(row))
    ab = sum(abs(v) for v in row)
    nzi = [y for y, v in enumerate(row) if v != 0]
    return m0, m1, ab, (min(nzi), max(nzi) + 1) if nzi else (0, 0)


def parse_grid(toks):
    return [parse_c(t) for t in toks]


# ------------------------------------------------------------------------------------ program level
# One short run of the real binary with a constant impedance read from a file: every record's
# /WakePotential/data must be scaling * c2r(Z * r2c(padded /BunchProfile/data)) with the scaling
# factor computed from the command-line parameters the way main() derives them (fs, bunch length,
# time step).  This ties main()'s wiring of the ElectricField constructor arguments to C05.2.

PHYS = dict(c=2.99792458e8, epsilon0=8.854187817e-12, e=1.602e-19, me=510998.9)


def main_derived(o):
    """the quantities main() derives from the options (defaults of ProgramOptions)"""
    E0, sE, f_rev, H, V_RF, alpha0 = o["E0"], o["sE"], o["f_rev"], o["H"], o["V_RF"], o["alpha0"]
    R_bend = PHYS["c"] / (2 * math.pi * f_rev)
    gamma = E0 / PHYS["me"]
    V0 = PHYS["e"] * gamma ** 4 / (3 * PHYS["epsilon0"] * R_bend)
    V_eff = math.sqrt(V_RF * V_RF - V0 * V0)
    fs = f_rev * math.sqrt(alpha0 * H * V_eff / (2 * math.pi * E0))
    dE = sE * E0
    bl = PHYS["c"] * dE / H / f_rev ** 2 / V_eff * fs
    dt = 1.0 / (fs * o["steps"])
    return dict(fs=fs, bl=bl, dt=dt, dE=dE, V_eff=V_eff)


def program_wake_check(ctx, tg, workdir, n=32, ohm=500.0, current=2e-3, steps=100, pqsize=12.0):
    import subprocess
    o = dict(E0=1.3e9, sE=4.7e-4, f_rev=9e6, H=50.0, V_RF=1e6, alpha0=4e-3, steps=steps)
    d = main_derived(o)
    N = 1
    while N < int(math.ceil(n * 8.0)):
        N *= 2
    zf = os.path.join(workdir, "zconst.txt")
    with open(zf, "w") as f:
        for i in range(2 * N):
            f.write("%d %.9g 0\n" % (i, ohm))
    out = os.path.join(workdir, "pw.h5")
    for p in (out, out + ".cfg"):
        if os.path.exists(p):
            os.remove(p)
    cmd = ["timeout", "-k", "5", "120", tg["inovesa"], "--gui", "0", "-s", str(n), "-N", str(steps), "-T", "0.5",
           "-I", repr(current), "-G", "0", "-Z", zf, "-o", out, "-n", str(steps // 4), "-P", repr(pqsize),
           "-E", repr(o["E0"]), "-e", repr(o["sE"]), "-F", repr(o["f_rev"]), "-H", repr(o["H"]), "-V", repr(o["V_RF"]),
           "--alpha0", repr(o["alpha0"])]
    r = subprocess.run(cmd, capture_output=True, text=True, env=vp_build.xdg_env(), cwd=workdir)
    if r.returncode != 0 or not os.path.exists(out):
        raise RuntimeError("inovesa (program-level wake check) failed rc=%d: %s" % (r.returncode, (r.stdout + r.stderr)[-500:]))
    h = subprocess.run(["timeout", "60", tg["h5cat"], out, "--values", "--only", "/BunchProfile/data", "--only",
                        "/WakePotential/data"], capture_output=True, text=True)
    data = {}
    for ln in h.stdout.splitlines():
        if ln.startswith("data "):
            t = ln.split()
            data[t[1]] = [float.fromhex(x) if "x" in x else float(x) for x in t[2:]]
    bp, wp = data["/BunchProfile/data"], data["/WakePotential/data"]
    nrec = len(bp) // n
    delta = pqsize / (n - 1)
    scaling = current * d["dt"] * PHYS["c"] / d["bl"] / (delta * o["sE"] * o["E0"]) / N
    worst = 0.0
    for k in range(nrec):
        rho, W = bp[k * n:(k + 1) * n], wp[k * n:(k + 1) * n]
        L = [ohm * sum(v * cmath.exp(-2j * math.pi * u * kk / N) for u, v in enumerate(rho)) for kk in range(N // 2)]
        cond = scaling * (abs(L[0]) + 2 * sum(abs(v) for v in L[1:]))
        tol = 1e-5 * cond       # float parameters (delta, angle, scaling) and the float FFT pair: ~64 ulp
        for j in range(n):
            y = L[0].real + 2 * sum((L[kk] * cmath.exp(2j * math.pi * j * kk / N)).real for kk in range(1, N // 2))
            ref = scaling * y
            worst = max(worst, abs(W[j] - ref) / cond)
            if abs(W[j] - ref) > tol:
                ctx.violation("impl-oracle", "recorded /WakePotential is not scaling*c2r(Z*r2c(recorded profile)) with the scaling "
                              "Ib*dt*c/(sigma_z*dE_cell)/N derived from the command line as main() does",
                              case=dict(kind="program-wake", cmd=cmd[4:], record=k, cell=j), observed=W[j],
                              expected=dict(ref=ref, tol=tol), sig=dict(kind="program-wake", clause="wake-reference"))
                return dict(records=nrec, worst_rel=worst, ok=False)
    ctx.case_done(("program-wake", n, steps), max(abs(v) for v in wp) > 0)
    for p in (out, out + ".cfg", zf):
        if os.path.exists(p):
            os.remove(p)
    return dict(records=nrec, worst_rel=worst, ok=True, peak_W_cells=max(abs(v) for v in wp))
