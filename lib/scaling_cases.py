"""Program-level checks of the quantities main() derives (family scaling; used by C06, C03, C04):
the `inovesa` binary is run on small configurations and what its results file records is compared with the value
*the property text implies for that command line* (spec formulas written here, independent of main.cpp)."""
import math, os, shutil, subprocess, tempfile
from fractions import Fraction
from vp_common import *
import vp_build
import bounds_cases as bc


def run_inovesa(tg, args, cwd, timeout=120):
    return bc.run_proc([tg["inovesa"]] + args, env=vp_build.xdg_env(), timeout=timeout, cwd=cwd)


def h5_all(h5cat, path, only=None):
    """{dataset: (dims, values)} of a results file"""
    cmd = [h5cat, path, "--values"] + (["--only", only] if only else [])
    rc, out, err = bc.run_proc(cmd, timeout=60)
    dims, data = {}, {}
    for line in out.splitlines():
        p = line.split()
        if not p:
            continue
        if p[0] == "dataset":
            rank = int(p[3])
            dims[p[1]] = [int(x) for x in p[4:4 + rank]]
        elif p[0] == "data":
            try:
                data[p[1]] = [float.fromhex(x) for x in p[2:]]
            except ValueError:
                data[p[1]] = [float("nan") if "nan" in x else (float("inf") if "inf" in x else float.fromhex(x)) for x in p[2:]]
    return {k: (dims[k], data.get(k)) for k in dims}


# ------------------------------------------------------------------------------------------ C06: padded lengths

def upt(v):
    v = (v - 1) & (2 ** 64 - 1)
    for s in (1, 2, 4, 8, 16, 32):
        v |= v >> s
    return (v + 1) & (2 ** 64 - 1)


def spec_lengths(n, nb, sps, padding, roundp):
    """what the documentation / property text says (doubles as the program uses them):
    spacing_bins = round(GridSize*spacing_ps); CSR length = ceil(GridSize*max(padding,1)); wake length for several
    buckets = max(ceil(GridSize*buckets*spacing_ps), (buckets-1)*spacing_bins + GridSize); powers of two on request"""
    sp = bc_round(n * sps)
    rd = math.ceil(n * max(padding, 1.0))
    wk = max(math.ceil((n * nb) * sps), (nb - 1) * sp + n) if nb > 1 else rd
    if roundp:
        rd, wk = upt(rd), upt(wk)
    return sp, rd, wk


def bc_round(x):
    return math.floor(x + 0.5) if x >= 0 else -math.floor(-x + 0.5)


def block_centres(row, frac=0.1):
    """centroids of the connected regions of a padded profile above frac*max"""
    mx = max(row)
    if not (mx > 0):
        return []
    res, cur = [], []
    for j, a in enumerate(row + [0.0]):
        if a > frac * mx:
            cur.append((j, a))
        elif cur:
            res.append(sum(j * a for j, a in cur) / sum(a for _, a in cur))
            cur = []
    return res


def padding_configs(ctx, count):
    rng = ctx.rng
    cfgs = []
    # (the results file needs both lengths >= 2*GridSize: its chunk sizes are min(256, GridSize) against length/2 columns)
    fixed = [(12, [1e-3, 1e-3, 1e-3], 0.6, 1, 2.3), (16, [1e-3, 0.0, 2e-3, 1e-3], 0.45, 1, 2.6),
             (12, [2e-3, 1e-3], 1.5, 0, 2.05), (16, [1e-3], 0.5, 0, 3.45)]
    for k in range(count):
        if k < len(fixed):
            n, cur, frac, rp, pad = fixed[k]
        else:
            n = rng.choice([12, 16, 20])
            nb = rng.randint(2, 4)
            cur = [rng.choice([1e-3, 2e-3]) if (j in (0, nb - 1) or rng.random() < 0.7) else 0.0 for j in range(nb)]
            frac = rng.choice([0.05, 0.3, 0.45, 0.55, 0.6, 0.75, 0.95, 1.4])
            rp = rng.choice([0, 1, 1])
            pad = rng.choice([2.0, 2.05, 2.3, 2.6, 3.1, 3.45, 8.0])
        cfg = dict(GridSize=n, BunchCurrent=cur, padding=pad, RoundPadding=rp, StepsPerTs=50, rotations=0.04, outstep=1)
        if len(cur) > 1:
            bc.tune_spacing(cfg, n + frac)
        cfgs.append(cfg)
    return cfgs


def check_padding_run(ctx, tg, cfg, work, tag):
    """one run; returns True when every clause could be evaluated"""
    n, cur = cfg["GridSize"], cfg["BunchCurrent"]
    nb = len(cur)
    sps = bc.main_spacing_ps(cfg)
    pad, rp = cfg["padding"], cfg["RoundPadding"]
    sp, rd, wk = spec_lengths(n, nb, sps, pad, rp)
    out = os.path.join(work, "pad%s.h5" % tag)
    args = bc.cfg_args(cfg) + ["-o", out]
    rc, so, err = run_inovesa(tg, args, work)
    case = dict(kind="program-padding", args=[a if a != out else "out.h5" for a in args],
                config={k: v for k, v in cfg.items() if not k.startswith("_")}, spacing_ps=sps)
    if rc != 0 or not os.path.exists(out):
        ctx.violation("impl-oracle", "the program does not complete on a multi-bucket configuration of the documented domain (rc=%d)" % rc,
                      case=case, observed=(so + err)[-500:], sig=dict(kind="padlen", clause="runs"))
        return False
    h = h5_all(tg["h5cat"], out)
    os.remove(out)
    exp = dict(spacing_bins=sp, csr_length=rd, wake_length=wk)
    ok = True
    if "/CSR/Spectrum/data" in h and h["/CSR/Spectrum/data"][0][-1] != rd // 2:
        ctx.violation("impl-oracle", "the CSR spectrum has %d columns; ceil(GridSize*max(padding,1))%s gives %d cells, the file keeps half" %
                      (h["/CSR/Spectrum/data"][0][-1], " rounded up to a power of two" if rp else "", rd), case=case,
                      observed=dict(dims=h["/CSR/Spectrum/data"][0]), expected=exp, sig=dict(kind="padlen", clause="csr-length"))
        ok = False
    pd = h.get("/BunchProfile/padded")
    if nb > 1 and cfg.get("VacuumGap", 0.03) != 0:
        if pd is None or not pd[0] or pd[0][0] == 0:
            ctx.violation("impl-oracle", "no padded profile record in the results file of a multi-bucket run with a wake", case=case,
                          observed=dict(dims=pd[0] if pd else None), expected=exp, sig=dict(kind="padlen", clause="wake-length"))
            return False
        dims, vals = pd
        if dims[1] != wk // 2:
            ctx.violation("impl-oracle", "the padded profile has %d columns; max(ceil(GridSize*buckets*spacing_ps), (buckets-1)*spacing_bins+GridSize)%s "
                          "gives %d cells, the file keeps half" % (dims[1], " rounded up to a power of two" if rp else "", wk), case=case,
                          observed=dict(dims=dims), expected=exp, sig=dict(kind="padlen", clause="wake-length"))
            ok = False
        # positions of the bunches in the padded train (first record: the initial, symmetric bunches)
        row = vals[:dims[1]]
        buckets = sorted(nb - 1 - j for j, c in enumerate(cur) if c > 0)
        vis = [b for b in buckets if b * sp + n <= dims[1]]
        cs = block_centres(row)
        if len(vis) >= 2 and len(cs) >= len(vis):
            got = (cs[len(vis) - 1] - cs[0]) / (vis[-1] - vis[0])
            ctx.count("program-padding:spacing-measured")
            if abs(got - sp) > 0.25:
                ctx.violation("impl-oracle", "the bunches of the padded train are %.3f cells per bucket apart; round(GridSize*spacing_ps) = round(%.6f) = %d" %
                              (got, n * sps, sp), case=case, observed=dict(block_centres=cs[:len(vis)], buckets=vis), expected=exp,
                              sig=dict(kind="padlen", clause="spacing"))
                ok = False
        elif len(vis) >= 2:
            ctx.notes.append("padded profile: %d blocks expected in the stored half, %d found (%s)" % (len(vis), len(cs), case["args"]))
    ctx.count("program-padding:runs")
    return ok


def program_padding(ctx, tg, count):
    work = tempfile.mkdtemp(prefix="c06pad-")
    try:
        cfgs = padding_configs(ctx, count)
        for i, cfg in enumerate(cfgs):
            check_padding_run(ctx, tg, cfg, work, str(i))
            nb = len(cfg["BunchCurrent"])
            ctx.case_done(("program-padding", i), nb > 1)
        ctx.sample(dict(kind="program-padding", args=bc.cfg_args(cfgs[0]), spec=dict(zip(("spacing_bins", "csr_length", "wake_length"),
                   spec_lengths(cfgs[0]["GridSize"], len(cfgs[0]["BunchCurrent"]), bc.main_spacing_ps(cfgs[0]), cfgs[0]["padding"], cfgs[0]["RoundPadding"])))))
    finally:
        shutil.rmtree(work, ignore_errors=True)


# ------------------------------------------------------------------------------------------ C03 / C04: program-level moments

class Records:
    """moment time series of a results file: per record k and bunch b"""

    def __init__(self, h):
        def grid(name):
            dims, vals = h[name]
            if len(dims) == 2:
                return [[vals[k * dims[1] + b] for b in range(dims[1])] for k in range(dims[0])]
            return [[[vals[(k * dims[1] + b) * dims[2] + x] for x in range(dims[2])] for b in range(dims[1])] for k in range(dims[0])]
        self.t = h["/Info/AxisValues_t"][1]
        self.z = h["/Info/AxisValues_z"][1]
        self.E = h["/Info/AxisValues_E"][1]
        self.L, self.S = grid("/BunchLength/data"), grid("/EnergySpread/data")
        self.Q, self.Eavg = grid("/BunchPosition/data"), grid("/EnergyAverage/data")
        self.prof, self.eprof = grid("/BunchProfile/data"), grid("/EnergyProfile/data")
        self.pop = grid("/BunchPopulation/data")
        self.nrec, self.nb = len(self.L), len(self.L[0]) if self.L else 0


def run_records(tg, opts, work, tag):
    out = os.path.join(work, "m%s.h5" % tag)
    args = ["--gui", "0", "--run_anyway", "1"] + opts + ["-o", out]
    rc, so, err = run_inovesa(tg, args, work)
    if not os.path.exists(out):
        return None, args, (so + err)[-400:]
    h = h5_all(tg["h5cat"], out)
    os.remove(out)
    for f in (out + ".cfg",):
        if os.path.exists(f):
            os.remove(f)
    try:
        return Records(h), args, (so + err)[-400:]
    except (KeyError, IndexError, TypeError) as e:
        return None, args, "results file incomplete: %r; %s" % (e, (so + err)[-300:])


def spec_angle(N):
    """the property: 2 pi divided by the number of steps per synchrotron period (the program keeps it as a float)"""
    return f32(2 * math.pi / N)


def spec_e1(fs, t_damp, N):
    """the property's anchor: e1 = 2/(f_s * t_damp * steps)"""
    return f32(2.0 / (float(f32(fs)) * t_damp * N)) if t_damp > 0 else 0.0


def sm_step_nat(fptype, a, t, e1, delta, m):
    """one RF kick + drift + Fokker-Planck step of the second moments (uu, uv, vv) per unit charge, in natural units
    (Model/Moments2.v sm_step; lib/props/C04.py checks that recurrence against the repo's maps through the API)"""
    uu, uv, vv = m
    uv, vv = uv + t * uu, vv + 2 * t * uv + t * t * uu
    uu, uv = uu - 2 * a * uv + a * a * vv, uv - a * vv
    d = e1 if fptype in (1, 3) else 0.0
    f = e1 if fptype in (2, 3) else 0.0
    return (uu, (1 - d) * uv, (1 - 2 * d) * vv + (2 * f - d * delta * delta))


def profile_variance(axis, prof, xprof, delta):
    """PhaseSpace::variance evaluated on recorded profiles: second central moment of `prof`, normalised by the integrated
    charge of the bunch profile `xprof` of the same record.  Returns (variance with the rectangle-rule charge of
    xprof, relative difference between that charge and the Simpson-rule charge PhaseSpace::integrate uses)"""
    n = len(xprof)
    q_rect = sum(xprof) * delta
    w = [delta / 3.0] + [delta / 3.0 * (4.0 if i % 2 == 1 else 2.0) for i in range(1, n - 1)] + [delta / 3.0]
    q_simp = sum(p * wi for p, wi in zip(xprof, w))
    s0 = sum(prof)
    if not (s0 > 0 and q_rect > 0):
        return None, None
    mean = sum(p * x for p, x in zip(prof, axis)) / s0
    var = sum(p * (x - mean) ** 2 for p, x in zip(prof, axis)) * delta / q_rect
    return var, abs(q_simp - q_rect) / q_rect


def check_record_consistency(ctx, rec, case, sigbase):
    """every recorded bunch length / energy spread is the rms of the recorded profile of the same record, normalised by
    that record's own measured charge (not by the nominal share)"""
    n = len(rec.z)
    dz, dE = (rec.z[-1] - rec.z[0]) / (n - 1), (rec.E[-1] - rec.E[0]) / (n - 1)
    worst = 0.0
    # A bunch that has become narrower than RESOLVED_CELLS cells in either plane (damping-only runs collapse towards a point)
    # is no longer represented by the grid: interpolation overshoot makes densities negative and the charge integral can
    # vanish.  The property speaks of widths "to within the discretisation error of the grid", so the records of that
    # bunch are not judged from there on (counted in the evidence).
    unresolved = set()
    for k in range(rec.nrec):
        for b in range(rec.nb):
            if b in unresolved:
                continue
            for name, val, axis, prof, dl in (("BunchLength", rec.L[k][b], rec.z, rec.prof[k][b], dz),
                                              ("EnergySpread", rec.S[k][b], rec.E, rec.eprof[k][b], dE)):
                var, qd = profile_variance(axis, prof, rec.prof[k][b], dl)
                if var is not None and var == var and 0 <= var < (RESOLVED_CELLS * dl) ** 2:
                    unresolved.add(b)
                    ctx.count("record-consistency:bunch-below-grid-resolution")
                    break
                if var is None and val == 0:
                    continue
                if var is None or not (var == var and abs(var) < 1e30 and val == val):
                    ctx.violation("impl-oracle", "/%s/data of record %d, bunch %d: the recorded value or profile is not finite / has no charge" % (name, k, b),
                                  case=case, observed=dict(recorded=val), sig=dict(sigbase, clause="finite", what=name))
                    return False
                # the energy profile is a rectangle-rule sum over the energy axis of Simpson-weighted columns while the charge is
                # Simpson-weighted in both directions: allow the measured difference of the two quadratures of the same profile
                # twice (once per direction) plus float accumulation
                tol = (2 * qd + 3e-4) * var
                worst = max(worst, abs(val * val - var) / var if var > 0 else 0.0)
                if not abs(val * val - var) <= tol:
                    ctx.violation("impl-oracle", "/%s/data of record %d, bunch %d is not the rms of the /%s profile of the same record "
                                  "normalised by that record's own charge" % (name, k, b, "BunchProfile" if name == "BunchLength" else "EnergyProfile"),
                                  case=case, observed=dict(recorded=val, rms_of_recorded_profile=math.sqrt(abs(var)), population=rec.pop[k][b]),
                                  expected=dict(tolerance_on_variance=tol / var), sig=dict(sigbase, clause="record-consistency", what=name))
                    return False
    ctx.extra.setdefault("record_consistency_worst", []).append(round(worst, 7))
    return True


def source_angle(N, sync_freq=0.0):
    """the angle main() hands to the RF and drift maps for `-N <N>` (StepsPerRevolution 0): the expression the translator
    read from the current source (Gen_Scaling `angle`), evaluated in double precision.  Used by C04, whose clauses do
    not depend on the rotation angle being the configured one (that is C03's statement): a slip of the angle in main()
    then changes C04's prediction together with the program."""
    try:
        import scaling_eval
        return float(scaling_eval.quantity("Gen_Scaling", "angle", {"StepsPerTs": N, "StepsPerRevolution": 0.0, "SynchrotronFrequency": sync_freq}))
    except Exception:
        return float(spec_angle(N))


def check_moment_series(ctx, rec, case, sigbase, N, fptype, e1, tol_rel, angle=None):
    """every bunch, every record: squared bunch length and energy spread follow the second-moment recurrence of one
    RF kick + drift + Fokker-Planck step with a = 2 pi/N (or the given angle), t = tan a and the e1 implied by the
    command line"""
    a = float(spec_angle(N)) if angle is None else angle
    t = float(f32(math.tan(a)))
    n = len(rec.z)
    delta = (rec.E[-1] - rec.E[0]) / (n - 1)
    dz = (rec.z[-1] - rec.z[0]) / (n - 1)
    worst = 0.0
    for b in range(rec.nb):
        m = (rec.L[0][b] ** 2, 0.0, rec.S[0][b] ** 2)
        for k in range(1, rec.nrec):
            m = sm_step_nat(fptype, a, t, e1, delta, m)
            if m[0] < (RESOLVED_CELLS * dz) ** 2 or m[2] < (RESOLVED_CELLS * delta) ** 2:
                # the exact recurrence says the bunch is now narrower than the grid resolves (see check_record_consistency)
                ctx.count("moment-series:stopped-below-grid-resolution")
                break
            gl, gs = rec.L[k][b] ** 2, rec.S[k][b] ** 2
            size = max(m[0], m[2], 1.0)
            err = max(abs(gl - m[0]), abs(gs - m[2])) / size
            worst = max(worst, err)
            if not err <= tol_rel:
                ctx.violation("impl-oracle", "bunch %d: squared length/spread of record %d leave the second-moment recurrence of a step with "
                              "angle 2 pi/%d%s" % (b, k, N, (" and e1 = %.5g" % e1) if e1 else ""), case=case,
                              observed=dict(BunchLength=rec.L[k][b], EnergySpread=rec.S[k][b]),
                              expected=dict(BunchLength=math.sqrt(max(m[0], 0)), EnergySpread=math.sqrt(max(m[2], 0)), tol_rel_on_squares=tol_rel),
                              sig=dict(sigbase, clause="moment-series", bunch=min(b, 1)))
                return False
    ctx.extra.setdefault("moment_series_worst", []).append(round(worst, 6))
    return True


def check_bunches_alike(ctx, rec, case, sigbase, tol=2e-4):
    """bunches that start alike (the same unit Gaussian, whatever their current) evolve alike without impedance"""
    for k in range(rec.nrec):
        for b in range(1, rec.nb):
            for name, arr in (("BunchLength", rec.L), ("EnergySpread", rec.S)):
                if not abs(arr[k][b] - arr[k][0]) <= tol * max(abs(arr[k][0]), 1.0):
                    ctx.violation("impl-oracle", "without impedance bunch %d's %s differs from bunch 0's at record %d" % (b, name, k), case=case,
                                  observed=dict(bunch0=arr[k][0], other=arr[k][b]), sig=dict(sigbase, clause="bunches-alike", what=name))
                    return False
    return True


RESOLVED_CELLS = 1.5   # rms width (in cells) below which a bunch is not judged any more: measured on the unchanged tree, the series error
#                        of a damping-only run (n 48, zoom 0.6, e1 0.026) stays < 2e-4 down to 1.6 cells, is 7e-3 at 0.76 cells, NaN at < 0.3
SERIES_TOL = 5e-4      # relative, on squared length/spread: measured worst 5e-5 over n 48/64, N 16..40, it 3/4, 3-point FP stencil,
#                        PhaseSpaceSize >= 16 for zoom 1.5 (tails cut at >= 5 sigma); a frozen bunch or a 1/N error of the angle is >= 1e-2


def moments_case(opts, **kw):
    return dict(kind="program-moments", options=opts, **kw)


def strobe_monotone(ctx, rec, case, sigbase, N, mode):
    """records one synchrotron period apart, every bunch, length and spread: 'converge' (distance to the last value shrinks, same
    side), 'shrink', 'grow'"""
    ks = list(range(0, rec.nrec, N))
    if len(ks) < 3:
        return True
    for b in range(rec.nb):
        for name, arr in (("BunchLength", rec.L), ("EnergySpread", rec.S)):
            seq = [arr[k][b] for k in ks]
            for i in range(1, len(seq)):
                p0, p1 = seq[i - 1], seq[i]
                if mode == "converge":
                    lim = 1.0
                    if abs(p0 - lim) < 0.05:
                        break
                    good = abs(p1 - lim) < abs(p0 - lim) and (p1 - lim) * (p0 - lim) > 0
                elif mode == "shrink":
                    good = p1 < p0
                else:
                    good = p1 > p0
                if not good:
                    ctx.violation("impl-oracle", "bunch %d: %s one synchrotron period apart does not %s (records %d -> %d)" %
                                  (b, name, mode, ks[i - 1], ks[i]), case=case, observed=[p0, p1], sig=dict(sigbase, clause="strobe-" + mode, what=name))
                    return False
    return True


def run_moments_case(ctx, tg, work, case, sigbase):
    """one program-level case: run, then the oracles its `checks` name"""
    rec, args, msg = run_records(tg, case["options"], work, "x")
    if rec is None or rec.nrec < 2:
        ctx.violation("impl-oracle", "the program does not produce a results file with moment records for a configuration of the documented domain",
                      case=case, observed=msg, sig=dict(sigbase, clause="runs"))
        return False
    ok = True
    N, fpt, e1 = case["N"], case.get("fptype", 0), case.get("e1", 0.0)
    if rec.nb != case.get("nb", rec.nb) or rec.nrec != case.get("records", rec.nrec):
        ctx.violation("impl-oracle", "the results file has %d records of %d bunches, expected %s of %s" % (rec.nrec, rec.nb, case.get("records"), case.get("nb")),
                      case=case, sig=dict(sigbase, clause="shape"))
        return False
    for chk in case["checks"]:
        if chk == "series":
            ang = source_angle(N, case.get("sync_freq", 0.0)) if case.get("angle_from_source") else None
            ok = check_moment_series(ctx, rec, case, sigbase, N, fpt, e1, case.get("tol", SERIES_TOL), angle=ang) and ok
        elif chk == "alike":
            ok = check_bunches_alike(ctx, rec, case, sigbase) and ok
        elif chk == "records":
            ok = check_record_consistency(ctx, rec, case, sigbase) and ok
        elif chk.startswith("strobe-"):
            ok = strobe_monotone(ctx, rec, case, sigbase, N, chk[7:]) and ok
        elif chk == "unit":
            for b in range(rec.nb):
                for name, v in (("BunchLength", rec.L[-1][b]), ("EnergySpread", rec.S[-1][b])):
                    if not abs(v - 1.0) <= case.get("unit_tol", 0.1):
                        ctx.violation("impl-oracle", "bunch %d: %s after %d steps with damping and diffusion is not 1 within %.2f" %
                                      (b, name, rec.nrec - 1, case.get("unit_tol", 0.1)), case=case, observed=v, sig=dict(sigbase, clause="unit-width", what=name))
                        ok = False
        elif chk == "moving":
            # no record repeats the previous one (a stale projection would)
            for b in range(rec.nb):
                for name, arr in (("BunchLength", rec.L), ("EnergySpread", rec.S)):
                    same = sum(1 for k in range(1, rec.nrec) if arr[k][b] == arr[k - 1][b])
                    if same > rec.nrec // 4:
                        ctx.violation("impl-oracle", "bunch %d: %s repeats the previous record at %d of %d records" % (b, name, same, rec.nrec - 1),
                                      case=case, observed=[arr[k][b] for k in range(min(6, rec.nrec))], sig=dict(sigbase, clause="stale-record", what=name))
                        ok = False
    return ok


def c03_multibunch_cases(ctx, count):
    """several bunches, no impedance, no Fokker-Planck term (main() puts Identity maps in both places), an unmatched round
    start (zoom != 1 on both axes): every bunch's second moments breathe as the kick-drift recurrence with angle 2 pi/N says"""
    rng = ctx.rng
    cases = []
    for i in range(count):
        n = rng.choice([48, 64])
        N = rng.choice([16, 20, 24])
        it = rng.choice([3, 4])
        zoom, P = rng.choice([(1.5, 16.0), (1.4, 18.0), (0.6, 10.0)])
        cur = rng.choice([[1e-3, 3e-3], [1e-3, 3e-3, 2e-3], [2e-3, 0.0, 1e-3]])
        T = 1.5
        opts = ["-s", str(n), "-I"] + [repr(c) for c in cur] + ["-G", "0", "-d", "0", "--InitialDistZoom", str(zoom), "-N", str(N), "-T", str(T),
                "-n", "1", "--LinearRF", "1", "--InterpolationPoints", str(it), "-P", str(P)]
        cases.append(moments_case(opts, N=N, nb=sum(1 for c in cur if c > 0), records=int(math.ceil(N * T)) + 1, checks=["series", "alike", "records", "moving"],
                                  note="multi-bunch, Identity maps for wake and Fokker-Planck"))
    return cases


def c04_cases(ctx, quick):
    rng = ctx.rng
    cases = []
    fs = 8000.0

    def mk(n, N, it, zoom, P, fpt, der, T, cur, e1t, checks, **kw):
        # the property quantifies over decrements inside the explicit scheme's stable range: e1/delta^2 < 1/2 (kept <= 0.4)
        delta = P / (n - 1.0)
        e1t = min(e1t, 0.4 * delta * delta)
        td = 2.0 / (fs * e1t * N) if e1t > 0 else 0.0
        opts = ["-s", str(n), "-I"] + [repr(c) for c in cur] + ["-G", "0", "-d", repr(td), "-f", str(fs), "--InitialDistZoom", str(zoom), "-N", str(N),
                "-T", str(T), "-n", "1", "--LinearRF", "1", "--InterpolationPoints", str(it), "-P", str(P), "--FPType", str(fpt), "--derivation", str(der),
                "--StepsPerRevolution", "0"]
        return moments_case(opts, N=N, fptype=fpt if e1t > 0 else 0, e1=float(spec_e1(fs, td, N)), nb=sum(1 for c in cur if c > 0),
                            records=int(math.ceil(N * T)) + 1, checks=checks, angle_from_source=True, sync_freq=fs, **kw)
    N = rng.choice([32, 40])
    n = rng.choice([48, 64])
    it = rng.choice([3, 4])
    e1t = rng.choice([0.02, 0.025])
    two = [1e-3, 3e-3]
    # damping + diffusion / damping only / diffusion only / neither, 3-point stencil (the recurrence is exact), every bunch, every record
    cases.append(mk(n, N, it, 1.5, 16.0, 3, 3, 3, two, e1t, ["series", "alike", "records", "strobe-converge", "moving"], note="full, zoom 1.5"))
    cases.append(mk(n, N, it, 1.5, 16.0, 1, 3, 2, two, e1t, ["series", "alike", "records", "strobe-shrink", "moving"], note="damping only"))
    cases.append(mk(n, N, it, 1.5, 20.0, 2, 3, 1.5, two, e1t, ["series", "alike", "records", "moving"], note="diffusion only"))
    cases.append(mk(n, N, it, 1.5, 16.0, 3, 3, 2, [2e-3, 1e-3, 1e-3], 0.0, ["series", "alike", "records", "moving"], note="DampingTime 0: Identity instead of the Fokker-Planck map"))
    cases.append(mk(48, 24, it, 0.6, 12.0, 3, 3, 4, two, 0.03, ["series", "alike", "records", "strobe-converge", "moving"], note="full, zoom 0.6 (grows to 1)"))
    # default 4-point stencil: no exact recurrence (switch rows, C01.5): within 6 % of the 3-point recurrence, to 1 within 10 %
    cases.append(mk(n, N, 4, 1.5, 16.0, 3, 4, 5, two, 0.03, ["series", "alike", "records", "strobe-converge", "unit", "moving"], tol=0.06, unit_tol=0.1, note="full, 4-point stencil"))
    # a run that loses charge (zoom 3 on a +-6 sigma grid; RenormalizeCharge 0): every recorded rms is normalised by the record's own charge
    cases.append(mk(48, N, 4, 3.0, 12.0, 3, 4, 2, [1e-3], e1t, ["records", "moving"], note="charge-losing start"))
    cases.append(mk(32, 20, 4, 3.0, 12.0, 3, 3, 2, [1e-3, 2e-3], e1t, ["records", "alike", "moving"], note="charge-losing start, two bunches"))
    if not quick:
        for _ in range(10):
            fpt = rng.choice([3, 1, 2])
            zoom, P = rng.choice([(1.5, 16.0), (0.6, 12.0), (1.3, 16.0)]) if fpt != 2 else (1.2, 20.0)
            chk = ["series", "alike", "records", "moving"] + (["strobe-converge"] if fpt == 3 else ["strobe-shrink"] if fpt == 1 and zoom > 1 else [])
            n_, N_, it_, T_ = rng.choice([48, 64]), rng.choice([24, 32, 40, 50]), rng.choice([3, 4]), rng.choice([2, 3])
            cur_, e1_ = rng.choice([two, [1e-3, 0.0, 2e-3], [1e-3]]), rng.choice([0.01, 0.02, 0.03])
            if fpt == 1:
                # damping only: the bunch shrinks by about exp(-e1 k / 2) in k steps; a start of 0.6 sigma, or 1.5 sigma over three periods
                # at e1 = 0.03, ends below one mesh cell (NaN records; the recurrence presupposes a resolved bunch): start wide, stop after
                # e1 * steps <= 1.3 (found in the thorough tier, default seed, by family stfp)
                zoom, P = 1.5, 16.0
                T_ = min(T_, max(1, int(1.3 / (e1_ * N_) * 2) / 2.0))
                chk = ["series", "alike", "records", "moving"] + (["strobe-shrink"] if T_ >= 2 else [])
            cases.append(mk(n_, N_, it_, zoom, P, fpt, 3, T_, cur_, e1_, chk))
    return cases


def run_moments(ctx, tg, cases, sigbase):
    work = tempfile.mkdtemp(prefix="pmom-")
    try:
        for i, c in enumerate(cases):
            run_moments_case(ctx, tg, work, c, sigbase)
            ctx.count("program-moments:%s" % (c.get("note") or "random"))
            ctx.case_done(("program-moments", i), True)
        if cases:
            ctx.sample(cases[0])
    finally:
        shutil.rmtree(work, ignore_errors=True)
