"""C05, program level: grids shifted DIFFERENTLY in position and energy (PhaseSpaceShiftX != PhaseSpaceShiftY, both signs).

Why: RFKickMap::_calcKick writes the linear RF kick in cells, `tan(dtheta) * (xcenter - x)` ENERGY cells for POSITION row x;
this is the focusing force `-tan(dtheta) q` of the force law (and of the Haissinski equation) only when the two mesh widths
are equal (`C05_rf_kick_natural_units`).  The axes are built in main(); `C05_main_cells_square` proves squareness over the
generated extents (Gen_Scaling: gen_qmin ... gen_pmax).  The API harness of the one-step cases builds its own axes, so
only the program itself shows what main() hands to the PhaseSpace constructor (seed C05-G: `pmax = qmin + pqsize`, invisible
for equal shifts).

Short runs of the `inovesa` binary, no impedance (`-G 0`), no Fokker-Planck term (`-d 0`: main() puts Identity maps in
both places), linear RF, an unmatched round start (InitialDistZoom != 1), every step recorded.  Oracles:
  * axes: /Info/AxisValues_z and _E (natural units) start / end at the generated extents evaluated for the command line
    (tie of Gen_Scaling's extents to the program; this is also what validates the last-good file when the translator no
    longer reads main()), both axes span PhaseSpaceSize (square cells), the zero of each axis lies at index
    (n-1)/2 + its OWN shift (`C05_main_zero_bins`);
  * force law on the second moments, every record, every bunch: squared bunch length / energy spread follow the kick-drift
    recurrence uu, uv + t uu, vv + 2 t uv + t^2 uu; then uu - 2 a uv + a^2 vv, uv - a vv with a = 2 pi/N and the RF strength
    t = tan(a) IN NATURAL UNITS (tolerance 5e-4 relative, as C03's multi-bunch runs; a mesh-width ratio delta_E/delta_q = 1 +
    (ShiftY-ShiftX)/(n-1) multiplies t and is off by 5..25 % here)."""
import math, os, shutil, tempfile
from vp_common import *
import scaling_cases as sc

SHIFTS = [(-6, 5), (4, -3), (0, 5), (-4, 0)]


def cases(ctx, quick):
    rng = ctx.rng
    out = []
    shifts = list(SHIFTS) if quick else SHIFTS + [(3, 3), (-2, 7), (6, -6), (1, 0)]
    for i, (sx, sy) in enumerate(shifts):
        n = rng.choice([48, 64])
        N = rng.choice([16, 20, 24])
        it = rng.choice([3, 4])
        zoom, P = rng.choice([(1.4, 20.0), (0.7, 12.0), (1.3, 18.0)])     # shifted by <= 7 cells the grid still holds +-4.8 sigma of the start
        cur = rng.choice([[1e-3], [1e-3, 3e-3]])
        T = 1.5
        opts = ["-s", str(n), "-I"] + [repr(c) for c in cur] + ["-G", "0", "-d", "0", "--InitialDistZoom", str(zoom), "-N", str(N), "-T", str(T),
                "-n", "1", "--LinearRF", "1", "--InterpolationPoints", str(it), "-P", str(P),
                "--PhaseSpaceShiftX", str(sx), "--PhaseSpaceShiftY", str(sy)]
        out.append(dict(kind="program-axes", options=opts, n=n, N=N, P=P, shift_x=sx, shift_y=sy, zoom=zoom, nb=len(cur),
                        records=int(math.ceil(N * T)) + 1, checks=["series", "alike"],
                        note="ShiftX %+d, ShiftY %+d" % (sx, sy)))
    return out


def generated_extents(c):
    import scaling_eval
    cfg = {"GridSize": c["n"], "PhaseSpaceSize": c["P"], "PhaseSpaceShiftX": c["shift_x"], "PhaseSpaceShiftY": c["shift_y"]}
    return {q: float(scaling_eval.quantity("Gen_Scaling", q, cfg)) for q in ("qmin", "qmax", "pmin", "pmax")}


def check_axes(ctx, rec, c, sigbase):
    n, P = c["n"], c["P"]
    ok = True
    tol = 4e-6 * P                      # float axis arithmetic (Ruler: min + i*delta), a few ulp of the half width
    try:
        g = generated_extents(c)
    except Exception as e:              # no readable generated file at all: the Coq part of the check reports that
        ctx.notes.append("generated axis extents unavailable: %r" % (e,))
        g = None
    if len(rec.z) != n or len(rec.E) != n:
        ctx.violation("impl-oracle", "recorded axes do not hold GridSize values", case=c, observed=[len(rec.z), len(rec.E)],
                      sig=dict(sigbase, clause="axes-shape"))
        return False
    if g is not None:
        for nm, got in (("qmin", rec.z[0]), ("qmax", rec.z[-1]), ("pmin", rec.E[0]), ("pmax", rec.E[-1])):
            if not abs(got - g[nm]) <= tol:
                ctx.violation("impl-oracle", "recorded axis end differs from the generated expression gen_%s evaluated for the command line" % nm,
                              case=c, observed=got, expected=dict(value=g[nm], tol=tol), sig=dict(sigbase, clause="axes-generated", what=nm))
                ok = False
    wz, wE = rec.z[-1] - rec.z[0], rec.E[-1] - rec.E[0]
    if not (abs(wz - P) <= tol and abs(wE - P) <= tol):
        ctx.violation("impl-oracle", "the two axes do not both span PhaseSpaceSize: the cells of the grid are not square (delta_E/delta_q = %.6f), "
                      "while the linear RF kick is written in cells" % (wE / wz if wz else float("nan")),
                      case=c, observed=dict(position_axis=wz, energy_axis=wE), expected=dict(PhaseSpaceSize=P, tol=tol),
                      sig=dict(sigbase, clause="square-cells"))
        ok = False
    # the zero of each axis sits at index (n-1)/2 + the axis' own shift (C05_main_zero_bins)
    for nm, ax, sh in (("position", rec.z, c["shift_x"]), ("energy", rec.E, c["shift_y"])):
        d = (ax[-1] - ax[0]) / (n - 1)
        zb = -ax[0] / d if d else float("nan")
        want = (n - 1) / 2.0 + sh
        if not abs(zb - want) <= 1e-3:
            ctx.violation("impl-oracle", "zero of the %s axis is at mesh index %.4f, not at (n-1)/2 + its own shift" % (nm, zb), case=c,
                          observed=zb, expected=want, sig=dict(sigbase, clause="zero-bin", what=nm))
            ok = False
    return ok


def discrimination(c, rec):
    """how far (in units of the series tolerance) the predicted series moves when the RF strength is multiplied by the mesh-width
    ratio 1 + (ShiftY-ShiftX)/(n-1) that a non-square grid of these shifts would have: the case can tell the two apart"""
    a = float(sc.spec_angle(c["N"]))
    t = float(f32(math.tan(a)))
    ratio = 1.0 + (c["shift_y"] - c["shift_x"]) / (c["n"] - 1.0)
    m1 = m2 = (rec.L[0][0] ** 2, 0.0, rec.S[0][0] ** 2)
    worst = 0.0
    for k in range(1, rec.nrec):
        m1 = sc.sm_step_nat(0, a, t, 0.0, 1.0, m1)
        m2 = sc.sm_step_nat(0, a, t * ratio, 0.0, 1.0, m2)
        worst = max(worst, max(abs(m1[0] - m2[0]), abs(m1[2] - m2[2])) / max(m1[0], m1[2], 1.0))
    return worst / sc.SERIES_TOL


def run_case(ctx, tg, work, c, sigbase):
    rec, args, msg = sc.run_records(tg, c["options"], work, "ax")
    if rec is None or rec.nrec < 2 or rec.nb != c["nb"] or rec.nrec != c["records"]:
        ctx.violation("impl-oracle", "the program does not produce a results file with %d moment records of %d bunches for a shifted grid of the documented domain"
                      % (c["records"], c["nb"]), case=c, observed=msg if rec is None else [rec.nrec, rec.nb], sig=dict(sigbase, clause="runs"))
        return False
    ok = check_axes(ctx, rec, c, sigbase)
    ok = sc.check_moment_series(ctx, rec, c, dict(sigbase, law="rf-focusing"), c["N"], 0, 0.0, sc.SERIES_TOL) and ok
    ok = sc.check_bunches_alike(ctx, rec, c, sigbase) and ok
    return ok, discrimination(c, rec) > 20


def run(ctx, tg, cs, sigbase):
    work = tempfile.mkdtemp(prefix="pax-")
    good = 0
    try:
        for i, c in enumerate(cs):
            r = run_case(ctx, tg, work, c, sigbase)
            ok, nontriv = r if isinstance(r, tuple) else (r, False)
            good += 1 if ok else 0
            ctx.count("program-axes:%s" % ("shifts differ" if c["shift_x"] != c["shift_y"] else "equal shifts"))
            ctx.case_done(("program-axes", i), nontriv and c["shift_x"] != c["shift_y"])
        if cs:
            ctx.sample(cs[0])
    finally:
        shutil.rmtree(work, ignore_errors=True)
    return good
