"""dynrf family (C19): case generation and the two drivers.

Argument line of harness/impl_dynrf.cpp (read_args):
  model n nb it qmax pmax qscale pscale angle V_RF V0 revolutionpart f_RF phasespread amplspread
  modampl modtimeincrement steps
Every number is passed as a C99 hex float, so both sides see the same binary value."""
import math, os, re, subprocess
from fractions import Fraction
from vp_common import *
import vp_coq

C_LIGHT = 299792458.0


class RFCase:
    def __init__(self, cid, lin, n, nb, it, qmax, pmax, qscale, pscale, angle, V_RF, V0, revpart, f_RF,
                 phasespread, amplspread, modampl, modinc, steps):
        self.cid, self.lin, self.n, self.nb, self.it = cid, lin, n, nb, it
        self.qmax, self.pmax, self.qscale, self.pscale = qmax, pmax, qscale, pscale
        self.angle, self.V_RF, self.V0, self.revpart, self.f_RF = angle, V_RF, V0, revpart, f_RF
        self.phasespread, self.amplspread, self.modampl, self.modinc, self.steps = \
            phasespread, amplspread, modampl, modinc, steps

    def args(self):
        return " ".join(["lin" if self.lin else "sin", str(self.n), str(self.nb), str(self.it)] +
                        [fhex(x) for x in (self.qmax, self.pmax, self.qscale, self.pscale, self.angle,
                                           self.V_RF, self.V0, self.revpart, self.f_RF, self.phasespread,
                                           self.amplspread, self.modampl, self.modinc)] + [str(self.steps)])

    def describe(self):
        d = dict(self.__dict__)
        d["model"] = "linear" if self.lin else "sinusoidal"
        return d

    def argvals(self):
        """values of the numeric constructor parameters as the constructors receive them"""
        return {"angle": f32(self.angle), "f_RF": self.f_RF, "revolutionpart": self.revpart,
                "V_RF": self.V_RF, "V0": self.V0, "xsize": self.n, "ysize": self.n,
                "phasespread": self.phasespread, "amplspread": self.amplspread, "modampl": self.modampl,
                "modtimeincrement": self.modinc, "steps": self.steps}


def gen_rf(rng, cid, lin=None, zero=True, noise=None, small=False):
    lin = rng.random() < 0.5 if lin is None else lin
    n = rng.choice([8, 9, 12, 16, 17, 24] if not small else [8, 9, 12])
    nb = rng.choice([1, 1, 2])
    it = rng.choice([1, 2, 3, 4])
    qmax = float(rng.choice([4, 5, 6, 8]))
    pmax = float(rng.choice([4, 5, 6, 8]))
    qscale = rng.uniform(5e-4, 5e-3)
    f_RF = rng.uniform(1e8, 3e9)
    steps_ts = rng.choice([16, 50, 200, 1000, 4000])
    angle = f32(2 * math.pi / steps_ts * rng.uniform(0.5, 2.0))
    V_RF = rng.uniform(1e5, 2e6)
    V0 = V_RF * rng.uniform(0.0, 0.6)
    revpart = rng.uniform(1e-4, 1e-2)
    bl2 = qscale / C_LIGHT * f_RF * 2 * math.pi
    pscale = revpart * V_RF * bl2 * rng.uniform(0.3, 3.0)
    steps = rng.randint(1, 12)
    if zero:
        ps = am = ma = 0.0
    else:
        nz = rng.random() < 0.6 if noise is None else noise
        ps = f32(rng.uniform(0, 0.02)) if nz and rng.random() < 0.8 else 0.0
        am = f32(rng.uniform(0, 0.01)) if nz and rng.random() < 0.8 else 0.0
        ma = f32(rng.uniform(0.001, 0.05)) if (rng.random() < 0.8 or not nz) else 0.0
    modinc = rng.uniform(1e-4, 0.2)
    return RFCase(cid, lin, n, nb, it, qmax, pmax, qscale, pscale, angle, V_RF, V0, revpart, f_RF,
                  ps, am, ma, modinc, steps)


def gen_data(rng, c):
    """smooth positive bump plus integer noise, away from the border"""
    n, nb = c.n, c.nb
    data = [0.0] * (nb * n * n)
    for b in range(nb):
        for x in range(2, n - 2):
            for y in range(2, n - 2):
                data[b * n * n + x * n + y] = float(rng.randint(0, 9))
    return data


def run_impl(ctx, text, timeout=600):
    tg = ctx.build(harness=("impl_dynrf", "h5cat"), want_binary=True)
    rc, out, err = run_driver(tg["impl_dynrf"], text, timeout=timeout)
    if rc != 0:
        raise RuntimeError("impl_dynrf rc=%d: %s" % (rc, err[-800:]))
    return parse_cases(out)


def run_model(text, timeout=600):
    rc, out, err = run_driver(vp_coq.model_path("dynrf"), text, timeout=timeout)
    if rc != 0:
        raise RuntimeError("model_dynrf rc=%d: %s" % (rc, err[-800:]))
    return parse_cases(out)


def toks(r, tag, i=0):
    return r.get(tag, [[]])[i] if tag in r and len(r[tag]) > i else []


def pairs(tl):
    return [(tl[i], tl[i + 1]) for i in range(0, len(tl) - 1, 2)]


def canon(t):
    """hex-float token canonicalised for bit comparison (-0 -> +0, nan kept)"""
    v = parse_c(t)
    return v


def q_of(t):
    v = parse_c(t)
    if isinstance(v, str):
        raise ValueError("non-finite value " + t)
    return v


# ------------------------------------------------------------------- vm_compute path (DESIGN 2.3)

def ctor_model():
    """the constructor-forwarding model evaluated by Coq's VM on the generated table:
    {True/False (linear): (ctor index, {member: ('FV', param) | ('FB', bool) | ('FN', int) | ('FOther',)})}"""
    src = os.path.join(VERIF, ".cache", "c19_ctor_cases.v")
    os.makedirs(os.path.dirname(src), exist_ok=True)
    with open(src, "w") as f:
        f.write("From Coq Require Import List String ZArith.\n"
                "From Inovesa Require Import Model.Ctors Gen.Gen_Ctors Model.DynRF.\n"
                "Set Printing Width 100000.\nSet Printing Depth 100000.\n"
                "Eval vm_compute in (dyn_base_sym true).\nEval vm_compute in (dyn_base_sym false).\n"
                "Eval vm_compute in (dc_params dyn_linear).\nEval vm_compute in (dc_params dyn_sinusoidal).\n")
    r = subprocess.run(["timeout", "120", "coqc", "-Q", os.path.join(VERIF, "coq"), "Inovesa", src],
                       capture_output=True, text=True, cwd=os.path.dirname(src))
    if r.returncode != 0:
        raise RuntimeError("ctor model evaluation failed: " + (r.stdout + r.stderr)[-800:])
    blocks = [b for b in re.split(r"\n\s*=\s", "\n" + r.stdout) if b.strip()]
    if len(blocks) < 4:
        raise RuntimeError("ctor model output not understood: " + r.stdout[-500:])
    res = {}
    for lin, b in ((True, blocks[0]), (False, blocks[1])):
        b = b.split("\n     :")[0]
        if b.strip().startswith("None"):
            res[lin] = None
            continue
        m = re.match(r"\s*Some\s*\((\d+),", b)
        fields = {}
        for mm in re.finditer(r'\("([^"]+)"(?:%string)?,\s*(FV "([^"]+)"(?:%string)?|FB (true|false)|FN \(?(-?\d+)\)?|FOther)\)', b):
            if mm.group(3) is not None:
                fields[mm.group(1)] = ("FV", mm.group(3))
            elif mm.group(4) is not None:
                fields[mm.group(1)] = ("FB", mm.group(4) == "true")
            elif mm.group(5) is not None:
                fields[mm.group(1)] = ("FN", int(mm.group(5)))
            else:
                fields[mm.group(1)] = ("FOther",)
        res[lin] = (int(m.group(1)), fields)
    res["params"] = {True: re.findall(r'"([^"]+)"', blocks[2]), False: re.findall(r'"([^"]+)"', blocks[3])}
    return res


FIELD_ORDER = ["_linear", "_angle", "_revolutionpart", "_V_RF", "_f_RF", "_V0", "_syncphase", "_bl2phase"]


def fields_of(tl):
    return dict(zip(FIELD_ORDER, tl))
