#!/usr/bin/env python3
"""self-test of the driver family's second wave: hand-made changes of src/main.cpp in the repo worktree,
each applied alone, the named checks run, exit code and VIOLATION lines recorded; worktree restored."""
import os, subprocess, sys, json, time
REPO = "/root/work/driver/repo"
VERIF = "/root/work/driver/verif"
MAIN = os.path.join(REPO, "src", "main.cpp")
ENV = dict(os.environ, VERIF_REPO=REPO)


def rep(a, b, count=1):
    def f(s):
        assert a in s, "pattern not found: %r" % a[:60]
        return s.replace(a, b, count)
    return f


def chain(*fs):
    def f(s):
        for g in fs:
            s = g(s)
        return s
    return f


FIN_FLUSH = '''        if (drfm) {
            hdf_file->appendRFKicks(drfm->getPastModulation());
            VERIF_POINT("fin:rfkicks");
        }'''
OUT_FLUSH = '''                if (drfm) {
                    hdf_file->appendRFKicks(drfm->getPastModulation());
                    VERIF_POINT("out:rfkicks");
                }'''
OUT_TRACKS = '''                hdf_file->appendTracks(trackme);
                VERIF_POINT("out:tracks");
'''

MUT = [
    # ---------------- C19 breaking
    ("C19-S1 final flush only when outstep divides the step", ["C19"], rep(FIN_FLUSH, FIN_FLUSH.replace("if (drfm) {", "if (drfm && outstep > 0 && simulationstep%outstep == 0) {"))),
    ("C19-S2 past list fetched twice in the output block (second call returns the cleared list)", ["C19"],
     rep(OUT_FLUSH, OUT_FLUSH.replace("hdf_file->appendRFKicks(drfm->getPastModulation());",
                                      "const auto nkicks = drfm->getPastModulation().size();\n                    if (nkicks > 0) hdf_file->appendRFKicks(drfm->getPastModulation());"))),
    ("C19-S3 no final flush when aborted", ["C19"], rep(FIN_FLUSH, FIN_FLUSH.replace("if (drfm) {", "if (drfm && !Display::abort) {"))),
    ("C19-S4 modulation amplitude converted with /180", ["C19"], rep("opts.getRFPhaseModAmplitude()\n                                      /360.0*two_pi<double>());", "opts.getRFPhaseModAmplitude()\n                                      /180.0*two_pi<double>());")),
    ("C19-S5 RF map not applied in the first step", ["C19"], rep("        rfm->apply();\n", "        if (simulationstep > 0) rfm->apply();\n")),
    ("C19-S6 queue built for laststep-1 steps", ["C19"], rep("rf_mod_ampl,rf_mod_step, laststep\n                                           , interpolationtype,interpol_clamp\n                                           , oclh\n                                           ));\n        } else {", "rf_mod_ampl,rf_mod_step, laststep-1\n                                           , interpolationtype,interpol_clamp\n                                           , oclh\n                                           ));\n        } else {")),
    # ---------------- C19 harmless
    ("C19-H1 flush moved before appendTracks in the output block; commuted product and renamed local for the modulation step", ["C19"],
     chain(rep(OUT_TRACKS + "\n" + OUT_FLUSH, OUT_FLUSH + "\n" + OUT_TRACKS),
           rep("const auto rf_mod_step = opts.getRFPhaseModFrequency()*dt;", "const auto mod_inc = dt*opts.getRFPhaseModFrequency();"),
           rep("rf_mod_step", "mod_inc", 10))),
    ("C19-H2 `if (drfm != nullptr)` in both flush sites, dt written 1.0/fs/steps", ["C19"],
     chain(rep("                if (drfm) {\n                    hdf_file->appendRFKicks", "                if (drfm != nullptr) {\n                    hdf_file->appendRFKicks"),
           rep("        if (drfm) {\n            hdf_file->appendRFKicks", "        if (nullptr != drfm) {\n            hdf_file->appendRFKicks"),
           rep("const double dt = 1.0/(fs*steps);", "const double dt = 1.0/fs/steps;"))),
    # ---------------- C14 breaking
    ("C14-S1 flag read a second time inside the step (Fokker-Planck map skipped when set)", ["C14"], rep("        fpm->apply();\n", "        if (!Display::abort) {\n            fpm->apply();\n        }\n")),
    ("C14-S2 `delete wm` before the final block (final block still appends wkm)", ["C14"],
     chain(rep("    delete wm;\n", ""), rep('    VERIF_POINT("fin:loop_left");\n', '    VERIF_POINT("fin:loop_left");\n    delete wm;\n'))),
    ("C14-S3 set-up: flag cleared after the output file was prepared", ["C14"], rep('    VERIF_POINT("setup:outputs_ready");\n', '    Display::abort = false;\n    VERIF_POINT("setup:outputs_ready");\n')),
    ("C14-S4 set-up: early exit with the flag as condition", ["C14"], rep('    VERIF_POINT("setup:wake_made");\n', '    VERIF_POINT("setup:wake_made");\n    if (Display::abort) {\n        return EXIT_FAILURE;\n    }\n')),
    ("C14-S5 variance(0) dropped from the final block", ["C14"], rep('        grid_t1->variance(0);\n        VERIF_POINT("fin:variance0");', '        VERIF_POINT("fin:variance0");')),
    # ---------------- C14/C12 harmless
    ("C14-H1 set-up: new verbose-only message, two independent statements swapped, handler body with an extra message", ["C14", "C12"],
     chain(rep('    VERIF_POINT("setup:wake_made");\n', '    VERIF_POINT("setup:wake_made");\n    if (verbose) {\n        Display::printText("Wake objects are ready.");\n    }\n'),
           rep("    const bool interpol_clamp = opts.getInterpolationClamped();\n    const bool verbose = opts.getVerbosity();\n", "    const bool verbose = opts.getVerbosity();\n    const bool interpol_clamp = opts.getInterpolationClamped();\n"))),
    ("C14-H2 deletes reordered, `if (hdf_file)` spelling, final status line through a local constant", ["C14", "C12"],
     chain(rep("    delete wake_field;\n\n    delete wm;\n    delete fpm;\n", "    delete fpm;\n    delete wm;\n\n    delete wake_field;\n"),
           rep("    // save final result\n    if (hdf_file != nullptr) {", "    // save final result\n    if (hdf_file) {"))),
    # ---------------- C11
    ("C11-S1 final block: integrate() instead of integrateAndNormalize() on a renormalisation step", ["C11"],
     rep('            grid_t1->integrateAndNormalize();\n            VERIF_POINT("fin:renormalized");', '            grid_t1->integrate();\n            VERIF_POINT("fin:renormalized");')),
    ("C11-S2 initial renormalisation without updateXProjection()", ["C11"], rep("    if (renormalize >= 0) {\n        grid_t1->updateXProjection();\n", "    if (renormalize >= 0) {\n")),
    ("C11-H1 final block: variance(0) and updateYProjection() swapped; prologue: y-projection before the integral", ["C11"],
     chain(rep('        grid_t1->variance(0);\n        VERIF_POINT("fin:variance0");\n        grid_t1->updateYProjection();\n        VERIF_POINT("fin:yproj");',
               '        grid_t1->updateYProjection();\n        VERIF_POINT("fin:variance0");\n        grid_t1->variance(0);\n        VERIF_POINT("fin:yproj");'))),
]


def main():
    sel = sys.argv[1:]
    src = open(MAIN).read()
    st = subprocess.run(["git", "-C", REPO, "status", "--porcelain", "--untracked-files=no"], capture_output=True, text=True).stdout.strip()
    assert not st, "repo worktree not clean"
    for name, checks, f in MUT:
        if sel and not any(name.startswith(x) for x in sel):
            continue
        try:
            new = f(src)
        except AssertionError as e:
            print("%-40s MUTATION DOES NOT APPLY: %s" % (name, e), flush=True)
            continue
        open(MAIN, "w").write(new)
        try:
            for c in checks:
                t0 = time.time()
                r = subprocess.run(["timeout", "900", os.path.join(VERIF, "bin", "check"), c, "--tier", "quick"], capture_output=True, text=True, env=ENV, cwd=VERIF)
                vio = [l for l in r.stdout.splitlines() if l.startswith("VIOLATION")]
                whats = []
                for l in vio:
                    try:
                        rp = json.load(open(l.split("replay=")[1].split()[0]))
                        whats.append("%s: %s%s" % (rp.get("kind"), (rp.get("what") or "")[:170], " [no-failing-input]" if rp.get("no_failing_input_found") else ""))
                    except Exception:
                        pass
                print("%s | %s rc=%d %.0fs | %s" % (name, c, r.returncode, time.time() - t0, " || ".join(whats)[:700]), flush=True)
        finally:
            open(MAIN, "w").write(src)
            subprocess.run(["git", "-C", REPO, "checkout", "--", "."], capture_output=True)


main()
